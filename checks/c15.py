"""C15 -- degenerate or invalid constructions are rejected, never returned."""
from .common import *
from Geometry3D import Parallelogram, Parallelepiped, Circle, Cylinder, Cone, Sphere, Pyramid
from symgeo.run import Family

PROP = 'C15'
BUDGET = {'quick': 100, 'thorough': 600}
TINY = F(1, 10 ** 12)


def must_raise(ctx, what, fn):
    st, r = call(fn)
    if st == 'ok':
        if isinstance(r, BaseException):
            ctx.outcome('returned-exception')
            ctx.fail('C15:%s returns an exception object instead of raising' % what, repr(r))
        ctx.outcome('returned')
        ctx.fail('C15:%s is accepted (returns %s)' % (what, type(r).__name__), repr(r)[:200])
    ctx.outcome('raise')


def tiny3(ctx, name):
    return tuple(ctx.param('%s%d' % (name, i), -TINY, TINY) for i in range(3))


def _frame(fr_name):
    e1, e2, e3 = B.frame_vectors(fr_name)
    return (F(1, 2), F(-1, 4), F(1)), e1, e2, e3


def fam_two_points(ctx, which, fr_name):
    """1-D objects from two points at most 1e-12 apart / from a direction of length <= 1e-12"""
    A, e1, e2, e3 = _frame(fr_name)
    u = tuple(ctx.param('u%d' % i) for i in range(3)) if which.endswith('@sym') else (F(0),) * 3
    a = R.vadd(A, u)
    dl = tiny3(ctx, 'd')
    b = R.vadd(a, dl)
    k = which.split('@')[0]
    table = {
        'Line(P,P)': lambda: Line(pt(ctx, a), pt(ctx, b)),
        'Line(P,V)': lambda: Line(pt(ctx, a), vec(ctx, dl)),
        'Segment(P,P)': lambda: Segment(pt(ctx, a), pt(ctx, b)),
        'Segment(P,V)': lambda: Segment(pt(ctx, a), vec(ctx, dl)),
        'HalfLine(P,P)': lambda: HalfLine(pt(ctx, a), pt(ctx, b)),
        'HalfLine(P,V)': lambda: HalfLine(pt(ctx, a), vec(ctx, dl)),
        'Plane(P,V)': lambda: Plane(pt(ctx, a), vec(ctx, dl)),
    }
    must_raise(ctx, '%s with coincident points / zero-length direction (<= 1e-12)' % k, table[k])


def fam_collinear(ctx, which, fr_name):
    """third point on the line through the first two (up to 1e-12)"""
    A, e1, e2, e3 = _frame(fr_name)
    t = ctx.param('t')
    ctx.assume(Or(t >= F(1, 10), t <= -F(1, 10)))
    ctx.assume(Or(t - 1 >= F(1, 10), t - 1 <= -F(1, 10)))
    dl = tiny3(ctx, 'd')
    a, b = A, R.vadd(A, e1)
    c = R.vadd(R.affine(A, (t, e1)), dl)
    if which == 'Plane(P,P,P)':
        must_raise(ctx, 'Plane from three collinear points', lambda: Plane(pt(ctx, a), pt(ctx, b), pt(ctx, c)))
    elif which == 'Plane(P,V,V)':
        must_raise(ctx, 'Plane from two parallel vectors', lambda: Plane(pt(ctx, a), vec(ctx, e1), vec(ctx, R.vadd(R.vscale(t, e1), dl))))
    elif which == 'ConvexPolygon':
        must_raise(ctx, 'ConvexPolygon with collinear vertices', lambda: ConvexPolygon((pt(ctx, a), pt(ctx, b), pt(ctx, c))))
    elif which == 'Parallelogram':
        must_raise(ctx, 'Parallelogram with parallel edge vectors', lambda: Parallelogram(pt(ctx, a), vec(ctx, e1), vec(ctx, R.vadd(R.vscale(t, e1), dl))))
    elif which == 'helper-noncollinear':
        # get_segment_from_point_list on points that are NOT collinear (third point off the line by >= 1e-3)
        s = ctx.param('s')
        ctx.assume(Or(s >= F(1, 100), s <= -F(1, 100)))
        c2 = R.affine(A, (t, e1), (s, e2))
        must_raise(ctx, 'get_segment_from_point_list on non-collinear points',
                   lambda: G.get_segment_from_point_list([pt(ctx, a), pt(ctx, b), pt(ctx, c2)]))
        # the same non-collinear point set listed in other orders and with repeated entries
        m = R.affine(A, (F(5, 2), e1))
        for nm, lst in (('off-line point first', [c2, a, b]), ('off-line point second', [a, c2, b]), ('off-line point after a repeated point', [a, b, b, c2]),
                        ('off-line point after a returning step', [a, b, a, c2]), ('off-line point after a further collinear point', [a, b, m, c2]),
                        ('off-line point repeated', [a, b, c2, c2]), ('off-line point after two repeats', [a, m, b, b, b, c2])):
            must_raise(ctx, 'get_segment_from_point_list on non-collinear points (%s)' % nm,
                       lambda: G.get_segment_from_point_list([pt(ctx, x) for x in lst]))


def fam_polygon(ctx, which, fr_name):
    A, e1, e2, e3 = _frame(fr_name)
    n = R.cross(e1, e2)
    if which == 'noncoplanar':
        s = ctx.param('s')
        ctx.assume(Or(s >= F(1, 100), s <= -F(1, 100)))
        t = ctx.param('t', F(1, 2), 2)
        pts = [A, R.vadd(A, e1), R.affine(A, (1, e1), (1, e2)), R.affine(A, (t, e2), (s, n))]
        must_raise(ctx, 'ConvexPolygon with a vertex off the plane of the first three', lambda: ConvexPolygon(tuple(pt(ctx, p) for p in pts)))
    elif which == 'too-few':
        dl = tiny3(ctx, 'd')
        b = R.vadd(A, e1)
        for what, pts in (('two points', [A, b]), ('one point', [A]), ('three points, two of them coincident', [A, b, R.vadd(A, dl)]),
                          ('four points, only two distinct', [A, b, R.vadd(A, dl), R.vadd(b, dl)])):
            must_raise(ctx, 'ConvexPolygon with fewer than three distinct vertices (%s)' % what, lambda: ConvexPolygon(tuple(pt(ctx, p) for p in pts)))
    elif which == 'circle-n':
        r = ctx.param('r', F(1, 4), 3)
        for nn in (2, 1, 0, -1):
            must_raise(ctx, 'Circle with n < 3', lambda: Circle(pt(ctx, A), vec(ctx, n), ctx.lib(r), nn))
        must_raise(ctx, 'get_circle_point_list with n < 3', lambda: G.get_circle_point_list(pt(ctx, A), vec(ctx, n), ctx.lib(r), 2))


def fam_solid(ctx, which, fr_name):
    A, e1, e2, e3 = _frame(fr_name)
    if which == 'parallelepiped-coplanar':
        a, b = ctx.param('a'), ctx.param('b')
        ctx.assume(Or(a >= F(1, 4), a <= -F(1, 4)))
        ctx.assume(Or(b >= F(1, 4), b <= -F(1, 4)))
        v3 = R.affine((F(0),) * 3, (a, e1), (b, e2))
        must_raise(ctx, 'Parallelepiped with linearly dependent edge vectors', lambda: Parallelepiped(pt(ctx, A), vec(ctx, e1), vec(ctx, e2), vec(ctx, v3)))
    elif which == 'parallelepiped-parallel':
        a = ctx.param('a')
        ctx.assume(Or(a >= F(1, 4), a <= -F(1, 4)))
        must_raise(ctx, 'Parallelepiped with two parallel edge vectors', lambda: Parallelepiped(pt(ctx, A), vec(ctx, e1), vec(ctx, R.vscale(a, e1)), vec(ctx, e3)))
    elif which == 'pyramid-apex':
        P = B.polygon('quad', fr_name)
        s, t = ctx.param('s'), ctx.param('t')
        e = R.vsub(P.verts[1], P.verts[0])
        apex = R.affine(P.verts[0], (s, e), (t, R.cross(P.n, e)))
        must_raise(ctx, 'Pyramid whose apex lies in the base plane',
                   lambda: Pyramid(ConvexPolygon(tuple(pt(ctx, v) for v in P.verts)), pt(ctx, apex), direct_call=False))
    elif which.startswith('open-'):
        K = B.body(which[5:], fr_name)
        u = tuple(ctx.param('u%d' % i) for i in range(3))
        for drop in range(len(K.faces)):
            faces = [f for i, f in enumerate(K.faces) if i != drop]
            must_raise(ctx, 'ConvexPolyhedron from a face set that is not closed',
                       lambda: ConvexPolyhedron(tuple(ConvexPolygon(tuple(pt(ctx, R.vadd(v, u)) for v in f)) for f in faces)))
    elif which == 'helper-few':
        u = tuple(ctx.param('u%d' % i) for i in range(3))
        must_raise(ctx, 'get_segment_from_point_list on one point', lambda: G.get_segment_from_point_list([pt(ctx, R.vadd(A, u))]))
        must_raise(ctx, 'get_segment_from_point_list on no point', lambda: G.get_segment_from_point_list([]))


class _Foreign:
    pass


def _instances(ctx, u):
    A, e1, e2, e3 = _frame('axis')
    A = R.vadd(A, u)
    K = B.body('tetra', 'axis')
    P = B.polygon('tri', 'axis')
    return {
        'Point': pt(ctx, A), 'Vector': vec(ctx, e1), 'Line': Line(pt(ctx, A), vec(ctx, e1)), 'Plane': Plane(pt(ctx, A), vec(ctx, e3)),
        'Segment': Segment(pt(ctx, A), pt(ctx, R.vadd(A, e1))), 'HalfLine': HalfLine(pt(ctx, A), vec(ctx, e2)),
        'ConvexPolygon': mk(ctx, B.rpoly(P, u)), 'ConvexPolyhedron': mk(ctx, B.rbody(K, u)),
        'int': 3, 'str': 'x', 'tuple': (ctx.lib(A[0]), ctx.lib(A[1]), ctx.lib(A[2])), 'object': _Foreign(),
    }


GEO = ['Point', 'Line', 'Plane', 'Segment', 'HalfLine', 'ConvexPolygon', 'ConvexPolyhedron']
DIST_OK = {('Point', 'Point'), ('Point', 'Line'), ('Line', 'Point'), ('Line', 'Line'), ('Point', 'Plane'), ('Plane', 'Point'), ('Line', 'Plane'),
           ('Plane', 'Line')}
ANG_OK = {('Line', 'Line'), ('Line', 'Plane'), ('Plane', 'Line'), ('Plane', 'Plane'), ('Vector', 'Vector')}


def fam_dispatch(ctx, op):
    u = tuple(ctx.param('u%d' % i) for i in range(3))
    inst = _instances(ctx, u)
    names = list(inst)
    if op == 'move':
        for k in GEO:
            for bad in ('int', 'str', 'tuple', 'object', 'Point'):
                must_raise(ctx, '%s.move(%s) (non-Vector argument)' % (k, bad), lambda: inst[k].move(inst[bad]))
            must_raise(ctx, '%s.move(None)' % k, lambda: inst[k].move(None))
        return
    if op == 'volume':
        for k in names:
            if k != 'ConvexPolyhedron':
                must_raise(ctx, 'volume(%s)' % k, lambda: G.volume(inst[k]))
        return
    fn = getattr(G, op)
    for ka in names:
        for kb in names:
            if op == 'intersection':
                bad = (ka not in GEO) or (kb not in GEO)
            elif op == 'distance':
                bad = (ka, kb) not in DIST_OK
            else:
                bad = (ka, kb) not in ANG_OK
            if bad:
                must_raise(ctx, '%s(%s, %s) (unsupported operand types)' % (op, ka, kb), lambda: fn(inst[ka], inst[kb]))


def families(tier, seed):
    fams = []
    frames = ['axis', 'oblique'] if tier == 'quick' else ['axis', 'planar', 'oblique', 'pyth3']
    for fr in frames:
        for w in ('Line(P,P)', 'Line(P,V)', 'Segment(P,P)', 'Segment(P,V)', 'HalfLine(P,P)', 'HalfLine(P,V)', 'Plane(P,V)'):
            fams.append(Family('coincident/%s/%s' % (w, fr), fam_two_points, (w, fr), must_reach=('raise',)))
            if fr == 'axis':
                fams.append(Family('coincident/%s@sym/%s' % (w, fr), fam_two_points, (w + '@sym', fr), must_reach=('raise',)))
        for w in ('Plane(P,P,P)', 'Plane(P,V,V)', 'ConvexPolygon', 'Parallelogram', 'helper-noncollinear'):
            fams.append(Family('collinear/%s/%s' % (w, fr), fam_collinear, (w, fr), must_reach=('raise',)))
        for w in ('noncoplanar', 'too-few', 'circle-n'):
            fams.append(Family('polygon/%s/%s' % (w, fr), fam_polygon, (w, fr), must_reach=('raise',)))
        for w in ('parallelepiped-coplanar', 'parallelepiped-parallel', 'pyramid-apex', 'open-tetra', 'open-cube', 'helper-few'):
            fams.append(Family('solid/%s/%s' % (w, fr), fam_solid, (w, fr), must_reach=('raise',)))
    for op in ('move', 'volume', 'intersection', 'distance', 'angle', 'parallel', 'orthogonal'):
        fams.append(Family('dispatch/%s' % op, fam_dispatch, (op,), must_reach=('raise',)))
    return fams


def _twin_segment_accepts_point_pair():
    import copy as _copy

    def init(self, a, b):
        a, b = _copy.deepcopy(a), _copy.deepcopy(b)
        if isinstance(b, Vector):
            b = Point(a.pv() + b)
        self.line = None
        self.start_point, self.end_point = a, b
    Segment.__init__ = init


TWINS = {'Segment accepts coincident end points': (r'^coincident/Segment\(P,P\)/axis$', _twin_segment_accepts_point_pair)}


META = dict(
    title='invalid constructions are rejected',
    level_text=('Bounded symbolic model checking of the real constructors, builders and helpers on invalid-input families: the defect size is a solver variable '
                '(coincident points b = a + delta with |delta_i| <= 1e-12, zero/tiny directions and normals, third point on the line up to 1e-12, dependent '
                'edge vectors a*v1 + b*v2, apex anywhere in the base plane, fourth vertex off the plane by any amount >= 1e-2, every single dropped face) and the '
                'pose is symbolic; the solver decides whether ANY path returns normally instead of raising.  Unsupported operand-type pairs of intersection, '
                'distance, angle, parallel, orthogonal, volume and move are a finite list enumerated outright with symbolic operand values.'),
    level_note='exact-real semantics; any exception type counts as rejection; returning an exception object counts as acceptance',
    technique='symbolic execution of real code over exact reals (z3): reachability of a normal return on invalid inputs',
    bounds=dict(defect='|delta_i| <= 1e-12 (3 reals)', pose='3 reals in [-3,3] or concrete frame', frames='2 (quick) / 4 (thorough)'),
    outside_claim=['invalid inputs of other kinds than listed in the property', 'degeneracy sizes between 1e-12 and the tolerance (not claimed by the property)'],
    assumptions=['none beyond the stated parameter boxes'],
)

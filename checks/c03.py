"""C03 -- intersection of two convex polygons / polyhedra is the exact convex set."""
from .common import *
from refgeo import hrep as H
from refgeo import denote as D
from symgeo.run import Family

PROP = 'C03'
BUDGET = {'quick': 120, 'thorough': 1500}


def _obj(kind, shape, fr_name, perm=None, origin=None):
    scale = None
    if shape.endswith('~'):          # polygon given in the opposite rotational order (its library normal is reversed)
        o = _obj(kind, shape[:-1], fr_name, perm, origin)
        o.rev = True
        return o
    if '*' in shape:
        shape, sc = shape.split('*')
        scale = F(sc)
    if kind == 'ConvexPolygon':
        return B.polygon(shape, fr_name, origin=origin, perm=perm, scale=scale)
    return B.body(shape, fr_name, origin=origin, perm=perm, scale=scale)


def _ref(o, off=None):
    if not isinstance(o, B.Poly2):
        return B.rbody(o, off)
    r = B.rpoly(o, off)
    if getattr(o, 'rev', False):
        r.v = [r.v[0]] + r.v[:0:-1]
        r.n = R.vscale(F(-1), r.n)
    return r


def fam_pair(ctx, ka, sa, fa, kb, sb, fb, permb, base, w, swap, method, origin=None, trange=None):
    """A fixed; B = shape translated by base + t*w (lattice vectors in world coordinates; w = 'edge': the first edge of A)"""
    t = ctx.param('t') if trange is None else ctx.param('t', trange[0], trange[1])
    oa = _obj(ka, sa, fa, origin=origin)
    ob = _obj(kb, sb, fb, perm=permb, origin=origin)
    if w == 'edge':
        w = R.vsub(oa.verts[1], oa.verts[0])
    off = R.affine(tuple(F(x) for x in base), (t, tuple(F(x) for x in w)))
    A, Bq = _ref(oa), _ref(ob, off)
    if swap:
        A, Bq = Bq, A
    orc = H.VertexOracle(A, Bq)
    orc.band(ctx)
    a, b = mk(ctx, A), mk(ctx, Bq)
    sig = 'C03:intersection(%s,%s)' % (A.kind, Bq.kind)
    if method:
        st, r = call(lambda: a.intersection(b))
    else:
        st, r = call(lambda: G.intersection(a, b))
    if st == 'raise':
        ctx.outcome('raise')
        ctx.fail(sig + ' raises %s' % exc_sig(r), repr(r))
    ctx.outcome(kind_of(r))
    orc.check(ctx, r, sig)
    # measures of the result agree with the measure of the true vertex set (convex => determined by the vertices)
    if getattr(ctx, 'mode', '') == 'conc' and isinstance(r, (ConvexPolygon, ConvexPolyhedron)):
        # float replays: exact hull of the true vertices (rational at concrete parameters) against the library's area() / volume():
        # a result with the right vertices but wrong faces has the wrong measure
        true_pts = list(dict.fromkeys(x for x, feas, _ in orc.cands if feas))
        try:
            if isinstance(r, ConvexPolyhedron):
                want, got = B.Body(true_pts).volume(), r.volume()
                ctx.require(abs(F(got) - want) <= F(1, 10 ** 6) * (1 + want), sig + ': volume of the result is not the volume of the true intersection')
            else:
                cyc, nn = B.hull2d(true_pts)
                tw = (F(0),) * 3
                for i in range(1, len(cyc) - 1):
                    tw = R.vadd(tw, R.cross(R.vsub(cyc[i], cyc[0]), R.vsub(cyc[i + 1], cyc[0])))
                want2, got = R.norm2(tw) / 4, r.area()
                ctx.require(abs(F(got) ** 2 - want2) <= F(1, 10 ** 6) * (1 + want2), sig + ': area of the result is not the area of the true intersection')
        except (ValueError, AssertionError):
            pass        # degenerate true vertex set: the vertex comparison above has already failed
    if isinstance(r, Segment):
        ra = D.as_ref(r)
        st, l = call(r.length)
        ctx.require(st == 'ok' and near(l * l, R.norm2(ra.d), F(1, 10 ** 8)), sig + ': length of the result is wrong')


def families(tier, seed):
    import random
    rng = random.Random(seed)
    fams = []
    PG, PH = 'ConvexPolygon', 'ConvexPolyhedron'
    # (kindA, shapeA, frameA, kindB, shapeB, frameB, permB, base, w)
    quick = [
        # coplanar polygons sliding over each other (vertex-, edge-touching, overlapping, nested positions)
        (PG, 'square', 'axis', PG, 'square', 'axis', None, (0, 1, 0), (1, 0, 0)),
        (PG, 'quad', 'axis', PG, 'tri', 'axis', None, (0, 0, 0), (1, 1, 0)),
        # polygons in crossing planes (perm 8 swaps axes: another plane)
        (PG, 'square', 'axis', PG, 'square', 'axis', 8, (1, 1, -1), (0, 0, 1)),
        (PG, 'quad', 'axis', PG, 'tri', 'axis', 8, (1, 2, -1), (0, -1, 0)),
        # coplanar-at-one-instant: parallel planes passing through each other
        (PG, 'square', 'axis', PG, 'tri', 'axis', None, (1, 1, -2), (0, 0, 1)),
        # polygons with different vertex counts, the second partly inside the first (both argument orders)
        (PG, 'tri*2', 'axis', PG, 'square*1/2', 'axis', None, (F(1, 2), F(1, 2), 0), (1, 0, 0)),
        # "+" crossing of two coplanar rectangles: they overlap although no vertex of either lies in the other
        (PG, 'wide', 'axis', PG, 'tall', 'axis', None, (0, 0, 0), (1, 0, 0)),
        # polygon through polyhedron
        (PH, 'cube', 'axis', PG, 'square', 'axis', None, (1, 1, -1), (0, 0, 1)),
        (PH, 'cube', 'axis', PG, 'tri', 'axis', 8, (-1, 1, 1), (1, 0, 0)),
        # polygon in an oblique supporting plane of the body: touches along an edge only (t = +-1, the body once on the positive and once
        # on the negative side of the polygon's normal), cuts through in between
        (PH, 'cube', 'axis', PG, 'square*2', 'yz45', None, (F(1, 2), 0, 0), (0, -1, 1)),
        # ... touches at a vertex only (the apex of the tetrahedron at t = 2), the polygon in either rotational order (body on the negative /
        # positive side of its normal); t = 0: coplanar with the base face
        (PH, 'tetra', 'axis', PG, 'square*2', 'axis', None, (F(-1, 2), F(-1, 4), 0), (0, 0, 1)),
        (PH, 'tetra', 'axis', PG, 'square*2~', 'axis', None, (F(-1, 2), F(-1, 4), 0), (0, 0, 1)),
        # coplanar polygons in an oblique plane THROUGH THE ORIGIN (offset 0: a relative offset comparison degenerates to exact float
        # equality there; the float replay of the lattice witnesses decides) -- frame with normal (6,2,-3)/7
        (PG, 'square', 'pyth7', PG, 'tri', 'pyth7', None, (0, 0, 0), 'edge', (0, 0, 0)),
        # polyhedron x polyhedron
        (PH, 'cube', 'axis', PH, 'cube', 'axis', None, (0, 0, 0), (1, 0, 0)),
        (PH, 'cube', 'axis', PH, 'cube', 'axis', None, (1, 1, 0), (0, 0, 1)),
        (PH, 'cube', 'axis', PH, 'cube', 'axis', None, (0, 0, 0), (1, 1, 1)),
        (PH, 'tetra', 'axis', PH, 'tetra', 'axis', None, (0, 0, 0), (1, 0, 0)),
        # bodies with different numbers of faces (6 against 4), both argument orders: whatever pairs up the two face lists must not stop
        # at the shorter one (6 against 5 faces)
        (PH, 'cube', 'axis', PH, 'prism*1/2', 'axis', None, (0, F(1, 4), F(1, 2)), (1, 0, 0), None, (F(1, 2), F(5, 2))),   # leaves through the cube's last-listed face
        # nested bodies: a small cube travels through a big one (outside, touching, strictly inside) - both argument orders
        (PH, 'cube', 'axis', PH, 'cube*1/4', 'axis', None, (F(3, 4), F(3, 4), F(1, 2)), (1, 0, 0)),
    ]
    extra = [
        # vertex touching in a plane with normal (1,-1,2) (t = -1), body on the positive / on the negative side of the polygon's normal
        (PH, 'cube', 'axis', PG, 'square*2', 'oblique', None, (0, 0, 0), (0, 0, 1)),
        (PH, 'cube', 'axis', PG, 'square*2', 'oblique', None, (2, -2, 0), (0, 0, -1)),
        (PH, 'tetra', 'axis', PG, 'square*2', 'yz45', None, (F(-3, 2), F(1, 4), F(1, 4)), (0, -1, 1)),
        (PG, 'penta', 'planar', PG, 'tri', 'planar', None, (0, 0, 0), (1, 0, 0)),
        (PH, 'tetra', 'axis', PG, 'quad', 'axis', None, (-1, -1, 0), (0, 0, 1)),
        (PH, 'tetra', 'oblique', PG, 'tri', 'oblique', None, (0, 0, 0), (1, 0, 0)),
        (PH, 'cube', 'axis', PH, 'tetra', 'axis', None, (1, 1, -1), (0, 0, 1)),
        (PG, 'hexa', 'axis', PG, 'square', 'axis', None, (0, 0, 0), (1, 1, 0)),
        (PG, 'penta', 'pyth3', PG, 'quad', 'pyth3', None, (0, 0, 0), (1, 2, 2)),
        (PG, 'hexa', 'axis', PG, 'tri', 'axis', 8, (1, 1, -1), (0, 1, 1)),
        (PH, 'prism', 'axis', PG, 'penta', 'axis', None, (0, 0, -1), (0, 0, 1)),
        (PH, 'octa', 'axis', PG, 'square', 'axis', None, (-1, -1, -2), (0, 0, 1)),
        (PH, 'pyramid', 'axis', PG, 'quad', 'axis', 8, (-1, 1, 1), (1, 0, 0)),
        (PH, 'cube', 'oblique', PG, 'square', 'oblique', None, (0, 0, -1), (0, 0, 1)),
        (PH, 'cube', 'axis', PH, 'cube', 'axis', None, (1, 0, 0), (0, 1, 1)),
        (PH, 'tetra', 'axis', PH, 'cube*1/8', 'axis', None, (F(1, 4), F(1, 4), F(1, 4)), (1, 0, 0)),
        (PH, 'cube', 'oblique', PH, 'tetra*1/4', 'axis', None, (0, F(1, 2), F(1, 2)), (1, 0, 0)),
        (PH, 'cube', 'axis', PH, 'prism', 'axis', None, (0, 0, 0), (1, 0, 0)),
        (PH, 'tetra', 'axis', PH, 'tetra', 'axis', None, (0, 0, 0), (1, 1, 1)),
        (PH, 'cube', 'axis', PH, 'octa', 'axis', None, (1, 1, -2), (0, 0, 1)),
        (PH, 'pyramid', 'axis', PH, 'cube', 'axis', None, (0, 0, -3), (0, 0, 1)),
        (PH, 'tetra', 'oblique', PH, 'tetra', 'oblique', None, (0, 0, 0), (1, 0, 0)),
        (PH, 'cube', 'pyth3', PH, 'cube', 'pyth3', None, (0, 0, 0), (F(1, 4), F(2, 4), F(2, 4))),
    ]
    rows = quick if tier == 'quick' else quick + extra
    for i, row in enumerate(rows):
        ka, sa, fa, kb, sb, fb, pb, base, w = row[:9]
        origin = row[9] if len(row) > 9 else None
        trange = row[10] if len(row) > 10 else None
        for swap in ((False,) if (tier == 'quick' and ka == kb == PH and '*' not in sb) else (False, True)):      # ('*' rows: both orders)
            method = (i % 2 == 1)
            heavy = (ka == PH and kb == PH)
            fams.append(Family('%s-%s@%s/%s-%s@%s%s/base%s/w%s/%s%s' % (ka[6:], sa, fa, kb[6:], sb, fb, '' if pb is None else '#%d' % pb,
                                                                      ','.join(map(str, base)), w if isinstance(w, str) else ','.join(map(str, w)),
                                                                      ('swap' if swap else 'fwd') + ('' if origin is None else '@origin'),
                                                                      '/m' if method else ''),
                               fam_pair, (ka, sa, fa, kb, sb, fb, pb, base, w, swap, method, origin, trange),
                               budget_s=(150 if tier == 'quick' else 2400) if heavy else None))
    return fams


def _twin_face_contact():
    """mutant: two polyhedra in face contact (intersection is a polygon) are reported as disjoint"""
    from .c01 import _wrap_public
    _wrap_public('intersection', lambda a, b, r: None if (isinstance(r, ConvexPolygon) and isinstance(a, ConvexPolyhedron) and isinstance(b, ConvexPolyhedron)) else r)


TWINS = {'face contact of two polyhedra -> None': (r'^Polyhedron-cube@axis/Polyhedron-cube@axis/base0,0,0/w1,0,0/', _twin_face_contact)}


META = dict(
    title='convex x convex intersection is the exact convex set',
    level_text=('Bounded symbolic model checking of the real intersection() code for polygon/polygon (coplanar, parallel and crossing planes), '
                'polygon/polyhedron and polyhedron/polyhedron: the second body is translated by base + t*w with t a real parameter, so vertex-, edge- and '
                'face-touching, overlapping and nested positions are values of t found by the solver.  On every path z3 proves that the vertex set of '
                'the result equals the exact vertex set of A n B (closed-form vertex candidates from facet triples, linear in t) and that None is '
                'returned only for disjoint bodies; the result type then is the dimension class of the true intersection.'),
    level_note=('exact-real semantics; only families that a run actually decides count as coverage (undecided ones are listed in the evidence); '
                'witnesses replayed with floats on the un-shimmed library'),
    technique='symbolic execution of real code over exact reals (z3), all paths; oracle = exact vertex enumeration of the H-representation',
    bounds=dict(parameters='1 real in [-3,3]', pairs='quick 11 body pairs, thorough 29', vertices='<= 8 per body'),
    outside_claim=['generic irrational poses (random rotations): out of reach of the solver-based technique here', 'symbolic body shapes', 'more than one moving degree of freedom'],
    assumptions=['every candidate vertex is exactly on or >= 1e-3 off every other facet', 'hash model (perfect hash; rounding cell = |x-y| < 5e-11)'],
)

"""C07 -- move translates the object in place and keeps it self-consistent (inductive step)."""
import copy
from .common import *
from symgeo.run import Family

PROP = 'C07'
BUDGET = {'quick': 150, 'thorough': 900}
T7 = F(1, 10 ** 7)


def V3(p):
    t = (p.x, p.y, p.z) if isinstance(p, Point) else (p[0], p[1], p[2])
    # concrete (float) values enter the oracles as the exact rationals they are
    return tuple(F(c) if isinstance(c, float) else c for c in t)


def pnear(a, b):
    return R.vnear(V3(a), V3(b), T7)


def par(a, b):
    c = R.cross(V3(a), V3(b))
    return R.norm2(c) <= T7 * T7 * (1 + R.norm2(V3(a)) * R.norm2(V3(b)))


def set_match(xs, ys, eq):
    xs, ys = list(xs), list(ys)
    if len(xs) != len(ys):
        return False
    return And(*([Or(*[eq(x, y) for y in ys]) for x in xs] + [Or(*[eq(x, y) for x in xs]) for y in ys]))


def seg_eq(a, b):
    return Or(And(pnear(a.start_point, b.start_point), pnear(a.end_point, b.end_point)),
              And(pnear(a.start_point, b.end_point), pnear(a.end_point, b.start_point)))


def same(a, b, deep=True):
    """formula: library objects a and b (same type) denote the same set, component by component (every cached
    component that exists on both is compared through its own denotation)"""
    if type(a) is not type(b):
        return False
    if isinstance(a, Point) or isinstance(a, Vector):
        return pnear(a, b)
    if isinstance(a, Line):
        w = R.vsub(V3(b.sv), V3(a.sv))
        return And(par(a.dv, b.dv), R.norm2(R.cross(w, V3(a.dv))) <= T7 * T7 * (1 + R.norm2(V3(a.dv))),
                   R.norm2(V3(a.dv)) >= F(1, 10 ** 6))
    if isinstance(a, Plane):
        q = R.dot(V3(a.n), R.vsub(V3(b.p), V3(a.p)))
        return And(par(a.n, b.n), q <= T7, q >= -T7)
    if isinstance(a, Segment):
        c = [seg_eq(a, b)]
        if deep and hasattr(a, 'line') and hasattr(b, 'line'):
            c.append(same(a.line, b.line))
        return And(*c)
    if isinstance(a, HalfLine):
        c = [pnear(a.point, b.point), par(a.vector, b.vector), R.dot(V3(a.vector), V3(b.vector)) > 0]
        if deep and hasattr(a, 'line') and hasattr(b, 'line'):
            c.append(same(a.line, b.line))
        return And(*c)
    if isinstance(a, ConvexPolygon):
        c = [set_match(a.points, b.points, pnear)]
        if deep:
            c += [same(a.plane, b.plane), pnear(a.center_point, b.center_point)]
            # the edges the public segments() reports (whatever it caches) are the edges of the current vertex cycle
            c.append(set_match(list(a.segments()), list(b.segments()), seg_eq))
        return And(*c)
    if isinstance(a, ConvexPolyhedron):
        c = [set_match(a.point_set, b.point_set, pnear), set_match(a.segment_set, b.segment_set, seg_eq),
             set_match(a.convex_polygons, b.convex_polygons, lambda x, y: set_match(x.points, y.points, pnear)),
             pnear(a.center_point, b.center_point)]
        if deep:
            for f in a.convex_polygons:
                # each face's cached plane / centre agree with its own vertices
                c.append(And(*[near(R.dot(V3(f.plane.n), R.vsub(V3(p), V3(f.plane.p))), 0, T7) for p in f.points]))
            if hasattr(a, 'pyramid_set') and hasattr(b, 'pyramid_set'):
                c.append(set_match(a.pyramid_set, b.pyramid_set,
                                   lambda x, y: And(pnear(x.point, y.point), set_match(x.convex_polygon.points, y.convex_polygon.points, pnear))))
        return And(*c)
    raise TypeError(type(a))


def make(ctx, kind, fr_name, shape, off):
    e1, e2, e3 = B.frame_vectors(fr_name)
    A0 = R.vadd((F(1, 2), F(-3, 4), F(1, 4)), off)
    if kind == 'Point':
        return pt(ctx, A0)
    if kind == 'Line':
        return Line(pt(ctx, A0), vec(ctx, e1))
    if kind == 'Plane':
        return Plane(pt(ctx, A0), vec(ctx, R.cross(e1, e2)))
    if kind == 'Segment':
        return Segment(pt(ctx, A0), pt(ctx, R.vadd(A0, R.vscale(2, e1))))
    if kind == 'HalfLine':
        return HalfLine(pt(ctx, A0), vec(ctx, e1))
    if kind == 'ConvexPolygon':
        return mk(ctx, B.rpoly(B.polygon(shape, fr_name), off))
    if kind == 'ConvexPolyhedron':
        return mk(ctx, B.rbody(B.body(shape, fr_name), off))
    raise TypeError(kind)


def probe_point(ctx, kind, fr_name, shape, off):
    """a symbolic probe point near the object at offset `off` (2 parameters: along / across)"""
    e1, e2, e3 = B.frame_vectors(fr_name)
    A0 = R.vadd((F(1, 2), F(-3, 4), F(1, 4)), off)
    s = ctx.param('ps')
    r = ctx.param('pr')
    w = R.cross(e1, e2) if kind in ('Plane', 'ConvexPolygon') else e2
    base = A0
    if kind == 'ConvexPolygon':
        base = R.vadd(B.polygon(shape, fr_name).verts[0], off)
    return R.affine(base, (s, e1), (r, w))


def battery(ctx, o, kind):
    """queries against fixed concrete probes (a point and a line in general position): [(name, status, value)].  Run once before
    the move (whatever they cache must not survive it) and compared with the fresh object afterwards."""
    x0 = (F(2), F(-1), F(3, 2))
    out = []
    if kind == 'Plane':           # (for the bounded 1-D kinds the relative positions of a symbolic object and the line multiply the paths)
        L0 = Line(pt(ctx, x0), vec(ctx, (F(1), F(2), F(-1))))
        out.append(('intersection with a fixed line',) + call(lambda: G.intersection(L0, o)))
    if kind in ('Point', 'Line', 'Plane'):
        out.append(('distance to a fixed point',) + call(lambda: G.distance(pt(ctx, x0), o)))
    if kind in ('Line', 'Segment', 'HalfLine'):
        out.append(('parametric()',) + call(lambda: tuple(o.parametric())))
    if kind == 'Plane':
        out.append(('general_form()',) + call(lambda: tuple(o.general_form())))
        out.append(('point_normal()',) + call(lambda: tuple(o.point_normal())))
    return out


def battery_same(r1, r2):
    (_, s1, v1), (_, s2, v2) = r1, r2
    if s1 != s2:
        return False
    if s1 == 'raise' or (v1 is None and v2 is None):
        return True
    if v1 is None or v2 is None:
        return False
    if isinstance(v1, tuple):
        if len(v1) != len(v2):
            return False
        cs = []
        for a, b in zip(v1, v2):
            if isinstance(a, (Vector, Point)):
                cs.append(R.vnear(V3(a), V3(b), T7))
            else:
                cs.append(near(a, b, T7))
        return And(*cs)
    if isinstance(v1, (Point, Line, Plane, Segment, HalfLine, ConvexPolygon, ConvexPolyhedron)):
        return type(v1) is type(v2) and same(v1, v2, deep=False)
    return near(v1, v2, T7)


def measures(o):
    out = []
    for name in ('length', 'area', 'volume'):
        f = getattr(o, name, None)
        if callable(f):
            out.append((name, f))
    return out


def fam_move(ctx, kind, fr_name, shape, start, probe):
    u = tuple(ctx.param('u%d' % i) for i in range(3))
    v = tuple(ctx.param('v%d' % i) for i in range(3))
    zero = (F(0), F(0), F(0))
    sig = 'C07:%s.move' % kind
    # ---- start state: an arbitrary reachable state at offset u
    if start == 'fresh':
        obj = make(ctx, kind, fr_name, shape, u)
    else:
        obj0 = make(ctx, kind, fr_name, shape, zero)
        st, ret0 = call(lambda: obj0.move(vec(ctx, u)))
        if st == 'raise':
            ctx.fail(sig + ' raises %s' % exc_sig(ret0), repr(ret0))
        obj = obj0 if start == 'moved-receiver' else ret0
        if start == 'moved-copy':
            obj = copy.deepcopy(obj0)
    orig = make(ctx, kind, fr_name, shape, u)
    # ---- the object has been used before it is moved (queries interleaved with moves): whatever a query caches must not survive the move
    for _, f in measures(obj):
        call(f)
    if kind == 'ConvexPolygon':
        call(lambda: list(obj.segments()))
    call(lambda: hash(obj))
    battery(ctx, obj, kind)
    # ---- one move by v
    st, ret = call(lambda: obj.move(vec(ctx, v)))
    if st == 'raise':
        ctx.outcome('raise')
        ctx.fail(sig + ' raises %s' % exc_sig(ret), repr(ret))
    if type(ret) is not type(obj):
        ctx.fail(sig + ' returns %s' % type(ret).__name__)
    fresh = make(ctx, kind, fr_name, shape, R.vadd(u, v))
    ctx.require(same(obj, fresh), sig + ': receiver is not the translated object (some component is stale)')
    ctx.require(same(ret, fresh), sig + ': return value is not the translated object')
    ctx.require(ret is not None and bool(ret == obj), sig + ': return value does not compare equal to the receiver')
    ctx.outcome('moved')
    for (name, f), (_, g) in zip(measures(obj), measures(orig)):
        st1, m1 = call(f)
        st2, m2 = call(g)
        ctx.require(st1 == 'ok' and st2 == 'ok' and near(m1, m2, F(1, 10 ** 8)), sig + ': %s changed by move' % name)
    # ---- queries on receiver / return value agree with the fresh object
    for who, o in (('receiver', obj), ('return value', ret)):
        for r1, r2 in zip(battery(ctx, o, kind), battery(ctx, fresh, kind)):
            ctx.require(battery_same(r1, r2), sig + ': %s on the %s differs from the fresh object' % (r1[0], who))
    if probe:
        x = probe_point(ctx, kind, fr_name, shape, R.vadd(u, v))
        for who, o in (('receiver', obj), ('return value', ret)):
            st1, a1 = call(lambda: pt(ctx, x) in o)
            st2, a2 = call(lambda: pt(ctx, x) in fresh)
            ctx.require(st1 == st2 and (st1 == 'raise' or bool(a1) == bool(a2)),
                        sig + ': `point in` on the %s differs from the fresh object' % who)
        if kind in ('Line', 'Plane', 'Segment', 'HalfLine'):
            other = Plane(pt(ctx, x), vec(ctx, B.frame_vectors(fr_name)[0]))
            for who, o in (('receiver', obj),):
                st1, i1 = call(lambda: G.intersection(o, other))
                st2, i2 = call(lambda: G.intersection(fresh, other))
                ok = (st1 == st2) and (st1 == 'raise' or (type(i1) is type(i2) and (i1 is None or same(i1, i2, deep=False))))
                ctx.require(ok, sig + ': intersection with the %s differs from the fresh object' % who)
    # ---- move back
    st, back = call(lambda: obj.move(vec(ctx, R.vscale(-1, v))))
    if st == 'raise':
        ctx.fail(sig + ' (back) raises %s' % exc_sig(back), repr(back))
    ctx.require(same(obj, orig), sig + ': move(v) then move(-v) does not restore the receiver')
    ctx.require(same(back, orig), sig + ': move(v) then move(-v) does not return the original')


def fam_seq(ctx, kind, fr_name, shape, nmoves):
    """explicit sequences: k moves by tau_i * w_i (one real parameter per move), interleaved with deepcopy"""
    dirs = [(1, 0, 0), (0, 1, 0), (1, 1, 1), (0, 0, 1), (-1, 2, 0), (2, 0, -1)]
    zero = (F(0), F(0), F(0))
    obj = make(ctx, kind, fr_name, shape, zero)
    tot = zero
    sig = 'C07:%s.move sequence' % kind
    cur = obj
    for i in range(nmoves):
        tau = ctx.param('tau%d' % i)
        step = R.vscale(tau, tuple(F(c) for c in dirs[i]))
        tot = R.vadd(tot, step)
        if i % 2 == 1:
            cur = copy.deepcopy(cur)
        st, ret = call(lambda: cur.move(vec(ctx, step)))
        if st == 'raise':
            ctx.fail(sig + ' raises %s' % exc_sig(ret), repr(ret))
        fresh = make(ctx, kind, fr_name, shape, tot)
        ctx.require(same(cur, fresh), sig + ': receiver wrong after move %d' % (i + 1))
        ctx.require(same(ret, fresh), sig + ': return value wrong after move %d' % (i + 1))
        if i % 3 == 2:
            cur = ret
    ctx.outcome('seq')


def families(tier, seed):
    fams = []
    kinds = [('Point', None), ('Line', None), ('Plane', None), ('Segment', None), ('HalfLine', None), ('ConvexPolygon', 'quad'),
             ('ConvexPolyhedron', 'tetra')]
    if tier == 'thorough':
        kinds += [('ConvexPolygon', 'penta'), ('ConvexPolyhedron', 'cube'), ('ConvexPolyhedron', 'prism')]
    frames = ['axis', 'oblique'] if tier == 'quick' else ['axis', 'planar', 'oblique', 'pyth3']
    for fr_name in frames:
        for kind, shape in kinds:
            for start in ('fresh', 'moved-receiver', 'moved-return', 'moved-copy'):
                probe = kind != 'ConvexPolyhedron' and start in ('fresh', 'moved-receiver')
                if tier == 'quick' and fr_name != 'axis' and start in ('moved-return', 'moved-copy'):
                    continue
                fams.append(Family('step/%s%s/%s/%s' % (kind, '-' + shape if shape else '', fr_name, start), fam_move,
                                   (kind, fr_name, shape, start, probe), must_reach=('moved',)))
        for kind, shape in kinds:
            n = 3 if tier == 'quick' else 6
            if fr_name == 'axis' or tier == 'thorough':
                fams.append(Family('seq%d/%s%s/%s' % (n, kind, '-' + shape if shape else '', fr_name), fam_seq, (kind, fr_name, shape, n),
                                   must_reach=('seq',)))
    return fams


def _twin_stale_plane():
    """mutant: ConvexPolygon.move forgets to rebuild its cached plane"""
    import Geometry3D.geometry.polygon as pg

    def move(self, v):
        if isinstance(v, Vector):
            self.points = tuple(p.move(v) for p in self.points)
            self.center_point = self._get_center_point()
            return ConvexPolygon(self.points)
        raise NotImplementedError("The second parameter for move function must be Vector")
    pg.ConvexPolygon.move = move


TWINS = {'ConvexPolygon.move with stale plane': (r'^step/ConvexPolygon-quad/axis/fresh$', _twin_stale_plane)}


META = dict(
    title='move keeps objects self-consistent',
    level_text=('Inductive-step symbolic model checking of the real move() code of all seven types: an object in an arbitrary reachable state '
                '(fresh at a symbolic offset u, or the receiver / return value / deep copy left by a previous symbolic move) receives one move(v), '
                'u and v being 6 free real parameters.  z3 proves on every path that every stored component of the receiver and of the return value '
                '(cached line, plane, centre, vertex, edge, face and pyramid sets) denotes the same set as in an object freshly constructed at u+v, '
                'that measures are unchanged, that point-membership and plane-intersection queries agree with the fresh object for a symbolic probe, and '
                'that move(-v) restores the original.  Explicit 3-6 move sequences with deepcopy back the step.'),
    level_note='exact-real semantics; shapes and frames from a finite catalogue; histories longer than 2 moves rest on the inductive step + sampled sequences',
    technique='symbolic execution of real code over exact reals (z3, linear arithmetic in 6-8 parameters), inductive step over reachable states',
    bounds=dict(parameters='u, v in [-3,3]^3 (+2 probe reals)', shapes='point, line, plane, segment, halfline, quad/pentagon, tetra/cube/prism', sequences='3 (quick) / 6 (thorough) moves'),
    outside_claim=['start states that are not translated catalogue shapes (e.g. results of intersections)', 'IEEE rounding'],
    assumptions=['every move rebuilds caches from the moved defining points only (so the state after k moves has the form of the state after one move)'],
)

"""C11 -- angle, parallel and orthogonal agree with exact direction geometry."""
import math as _m
from .common import *
from symgeo import shims
from symgeo.run import Family

PROP = 'C11'
BUDGET = {'quick': 120, 'thorough': 900}
KINDS = [('Line', 'Line'), ('Line', 'Plane'), ('Plane', 'Line'), ('Plane', 'Plane'), ('Vector', 'Vector')]


def _obj(ctx, kind, p, d):
    if kind == 'Line':
        return Line(pt(ctx, p), vec(ctx, d))
    if kind == 'Plane':
        return Plane(pt(ctx, p), vec(ctx, d))
    return vec(ctx, d)


EXTRA_WITNESSES = {'quick': 8, 'thorough': 16}


def _basis(fr_name, perm):
    if fr_name.startswith('dir:'):
        d = tuple(F(x) for x in fr_name[4:].split(','))
        w = next(c for c in (R.cross(d, (F(0), F(0), F(1))), R.cross(d, (F(1), F(0), F(0)))) if any(c))
        return R.vscale(F(1, 2), d), w, R.cross(d, w)
    return B.frame_vectors(fr_name, perm)


def fam_dir(ctx, ka, kb, fr_name, perm, template, form):
    e1, e2, e3 = _basis(fr_name, perm)
    k = ctx.param('k')
    t = ctx.param('t')
    if template == 'kts':
        s = ctx.param('s')
    else:
        s = F(0)
    u = R.vscale(2, e1)
    v = R.affine(R.vscale(k, e1), (t, e2), (s, e3))
    uu, vv = R.norm2(u), R.norm2(v)
    ctx.assume(vv >= F(1, 100))
    cr = R.cross(u, v)
    cc = R.norm2(cr)
    dt = R.dot(u, v)
    m2 = R.MARGIN * R.MARGIN
    ctx.assume(Or(cc == 0, cc >= m2 * uu * vv))
    ctx.assume(Or(dt == 0, dt * dt >= m2 * uu * vv))
    pa, pb = (F(1, 4), F(0), F(-1)), (F(1), F(1, 2), F(0))
    a, b = _obj(ctx, ka, pa, u), _obj(ctx, kb, pb, v)
    mixed = (ka != kb)            # Line vs Plane: the plane's direction is its normal
    sig = 'C11:%%s(%s,%s)' % (ka, kb)
    use_method = (form == 'method' and ka != 'Vector')

    def run(name):
        if use_method:
            return call(lambda: getattr(a, name)(b))
        return call(lambda: getattr(G, name)(a, b))
    # ---- angle
    st, ang = run('angle')
    if st == 'raise':
        ctx.outcome('raise')
        ctx.fail(sig % 'angle' + ' raises %s' % exc_sig(ang), repr(ang))
    def cosine(a_):
        """the cosine (sine for line/plane) of a returned angle, whatever its representation"""
        if isinstance(a_, shims.SymAcos):
            want = 'asin' if mixed else 'acos'
            if a_.kind != want:
                ctx.fail(sig % 'angle' + ' is not the %s of the direction cosine' % want, repr(a_))
            return a_.x
        if isinstance(a_, (int, float, F)):
            if not (-1e-12 <= a_ <= _m.pi / 2 + 1e-12):
                ctx.fail(sig % 'angle' + ' outside [0, pi/2]', repr(a_))
            c_ = _m.sin(a_) if mixed else _m.cos(a_)
            return F(c_) if ctx.mode == 'sym' else c_
        ctx.fail(sig % 'angle' + ' returns a non-number', repr(a_))
    x = cosine(ang)
    tol9 = F(1, 10 ** 9)
    if ctx.mode == 'sym':
        ctx.require(And(x >= -tol9, x <= 1 + tol9), sig % 'angle' + ' outside [0, pi/2]')
        ctx.require(near(x * x * uu * vv, dt * dt, tol9 * uu * vv), sig % 'angle' + ' is not the acute angle between the directions')
    else:
        ctx.require(abs(x * x * float(uu * vv) - float(dt * dt)) <= 1e-9 * float(uu * vv), sig % 'angle' + ' is not the acute angle between the directions')
    # ---- parallel / orthogonal
    par_truth = (cc == 0) if not mixed else (dt == 0)
    ort_truth = (dt == 0) if not mixed else (cc == 0)
    for name, truth in (('parallel', par_truth), ('orthogonal', ort_truth)):
        st, got = run(name)
        if st == 'raise':
            ctx.fail(sig % name + ' raises %s' % exc_sig(got), repr(got))
        got = bool(got)
        ctx.outcome('%s=%s' % (name[:3], got))
        ctx.require(Iff(truth, got), sig % name + ' wrong (library says %s)' % got)
    # ---- symmetry
    if ka != kb or True:
        st, ang2 = call(lambda: G.angle(b, a))
        if st == 'raise':
            ctx.fail('C11:angle(%s,%s) raises %s' % (kb, ka, exc_sig(ang2)), repr(ang2))
        x2 = cosine(ang2)
        ctx.require(near(x2, x, F(1, 10 ** 8)) if ctx.mode == 'sym' else abs(x2 - x) <= 1e-8, sig % 'angle' + ' not symmetric')
        for name in ('parallel', 'orthogonal'):
            st, g1 = call(lambda: getattr(G, name)(a, b))
            st2, g2 = call(lambda: getattr(G, name)(b, a))
            ctx.require(st == 'ok' and st2 == 'ok' and bool(g1) == bool(g2), sig % name + ' not symmetric')


FP_RANGE = 8      # lattice coordinates k/4 with |k| <= 8; measured: unsat proofs over bit-blasted sqrt/div take 35 s (|k|<=4) to 224 s (|k|<=32) each


def fam_fp_acos(ctx, m, kind):
    """bit-precise: can the float argument of acos leave [-1, 1] for exactly parallel lattice directions u and m*u ?"""
    import z3
    us, ks = [], []
    for i in range(3):
        v, k = ctx.fp_lattice('k%d' % i, -FP_RANGE, FP_RANGE)
        us.append(v)
        ks.append(k)
    if ctx.mode == 'sym':
        ctx.eng.assume(z3.Or([k != 0 for k in ks]))
    elif not any(ks):
        raise core.Inadmissible('zero direction')
    vs = [u * float(m) for u in us]
    if kind == 'Vector':
        a, b = Vector(*us), Vector(*vs)
    else:
        a, b = Line(Point(0, 0, 0), Vector(*us)), Line(Point(1, 0, 0), Vector(*vs))
    st, r = call(lambda: G.angle(a, b))
    if st == 'raise':
        ctx.outcome('raise')
        ctx.fail('C11:angle(%s,%s) raises %s' % (kind, kind, exc_sig(r)), repr(r))
    ctx.outcome('ok')


def families(tier, seed):
    import random
    rng = random.Random(seed)
    frames = ['axis', 'oblique', 'pyth3', 'pyth7'] if tier == 'quick' else ['axis', 'planar', 'oblique', 'pyth3', 'pyth7', 'shear']
    fams = []
    for fi, fr_name in enumerate(frames):
        perms = [None] if tier == 'quick' else [None, rng.randrange(48)]
        for perm in perms:
            tag = '%s%s' % (fr_name, '' if perm is None else '#%d' % perm)
            for ka, kb in KINDS:
                for tp in (('kt',) if tier == 'quick' and fi > 0 else ('kt', 'kts')):
                    for form in (('function', 'method') if fi == 0 and ka != 'Vector' else ('function',)):
                        fams.append(Family('%s-%s/%s/%s/%s' % (ka, kb, tp, tag, form), fam_dir, (ka, kb, fr_name, perm, tp, form),
                                           must_reach=('par=True', 'par=False', 'ort=True', 'ort=False')))
    # explicit lattice directions: exactly parallel / perpendicular pairs on them are where float rounding of the cosine
    # matters; the float replay of the path witnesses (8 lattice witnesses per path) looks at those
    for dname in (['3,2,0', '1,1,1', '2,1,1', '0,2,3'] if tier == 'quick' else ['3,2,0', '1,1,1', '2,1,1', '0,2,3', '3,3,0', '1,2,3', '2,3,6', '-1,4,0']):
        for ka, kb in KINDS:
            fams.append(Family('%s-%s/kt/dir:%s/function' % (ka, kb, dname), fam_dir, (ka, kb, 'dir:' + dname, None, 'kt', 'function'),
                               must_reach=('par=True', 'par=False', 'ort=True', 'ort=False')))
    # bit-precise binary64 obligation: a single query costs 1-3 minutes (bit-blasted sqrt/div), so thorough tier only;
    # in the quick tier float noise is only seen through the float replay of the path witnesses
    if tier == 'thorough':
        for m in (1, -1, 2, -2, 3, -3):
            fams.append(Family('fp64-acos-domain/Vector/m=%d' % m, fam_fp_acos, (m, 'Vector'), timeout_ms=600000, budget_s=2400))
    return fams


def _twin_line_plane_parallel():
    """mutant: parallel(Line, Plane) answers orthogonal(Line, Plane)"""
    orig_p, orig_o = G.parallel, G.orthogonal
    G.parallel = lambda a, b: orig_o(a, b) if (isinstance(a, Line) and isinstance(b, Plane)) else orig_p(a, b)


TWINS = {'parallel(Line, Plane) confuses normal and plane': (r'^Line-Plane/kt/axis/function$', _twin_line_plane_parallel)}


META = dict(
    title='angle / parallel / orthogonal',
    level_text=('Bounded symbolic model checking of the real angle/parallel/orthogonal code (functions and methods) for Line/Line, Line/Plane, '
                'Plane/Plane and Vector/Vector in both orders: the second direction is k*u + t*w1 (+ s*w2) with 2-3 real parameters, so exactly parallel, '
                'anti-parallel and perpendicular pairs of every length ratio are parameter values.  z3 proves on every path that the returned angle is '
                'the arccos/arcsin of the exact acute cosine, parallel <=> cross = 0, orthogonal <=> dot = 0, symmetry, and that no path raises.  '
                'A bit-precise IEEE-754 (QF_FP) run of the same Vector.angle code decides whether the float argument of acos can leave [-1,1] for parallel lattice vectors.'),
    level_note='exact-real semantics for the main part; binary64 semantics (round-to-nearest-even, fp.sqrt for **0.5) for the acos-domain obligation',
    technique='symbolic execution of real code over exact reals (z3 QF_NRA) + bit-precise QF_FP execution of Vector.angle',
    bounds=dict(parameters='2-3 reals in [-3,3]', frames='3 (quick) / 6 (thorough)', fp64='thorough tier only: lattice vectors with |coordinate| <= 2 (k/4, |k| <= 8), v = m*u, m in {+-1,+-2,+-3}'),
    outside_claim=['float rounding of the returned angle itself', 'poses outside the catalogue'],
    assumptions=['cross/dot of the two directions are 0 or >= 1e-3 relative', 'acos/asin modelled by monotonicity (SymAcos)'],
)

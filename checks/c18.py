"""C18 -- Vector arithmetic is exact component algebra and preserves the numeric type."""
from decimal import Decimal
from .common import *
from symgeo import shims
from symgeo.run import Family
import z3

PROP = 'C18'
BUDGET = {'quick': 120, 'thorough': 600}


def _ex(ctx, x):
    """library input: the symbolic ring element, or (concrete mode) the exact Fraction"""
    return x


def _raw(ctx, x):
    """oracle-side number: a raw z3 term (so the textbook formula is built by z3, not by the engine's own
    polynomial arithmetic) or the Fraction"""
    if ctx.mode == 'sym':
        return x.z if isinstance(x, SymNum) else core._q(F(x))
    return x


def _same(ctx, got, exp):
    if ctx.mode == 'sym':
        gz = got.z if isinstance(got, SymNum) else core._q(F(got))
        return core.SymBool(('z3', gz == exp))
    return F(got) == F(exp)


def _vec3(ctx, name, box):
    lo, hi = box
    return [ctx.param('%s%d' % (name, i), lo, hi) for i in range(3)]


def fam_ops(ctx, box):
    a = _vec3(ctx, 'a', box)
    b = _vec3(ctx, 'b', box)
    k = ctx.param('k', *box)
    A, Bv = Vector(*a), Vector(*b)
    ra, rb, rk = [_raw(ctx, x) for x in a], [_raw(ctx, x) for x in b], _raw(ctx, k)
    before = shims.COUNTS['float_on_sym']

    def comps(v):
        if not isinstance(v, Vector):
            ctx.fail('C18:operator result is not a Vector', type(v).__name__)
        return [v[0], v[1], v[2]]
    table = [
        ('a+b', lambda: comps(A + Bv), [ra[i] + rb[i] for i in range(3)]),
        ('a-b', lambda: comps(A - Bv), [ra[i] - rb[i] for i in range(3)]),
        ('a*k', lambda: comps(A * k), [ra[i] * rk for i in range(3)]),
        ('k*a', lambda: comps(k * A), [rk * ra[i] for i in range(3)]),
        ('-a', lambda: comps(-A), [-ra[i] for i in range(3)]),
        ('axb', lambda: comps(A.cross(Bv)), [ra[1] * rb[2] - ra[2] * rb[1], ra[2] * rb[0] - ra[0] * rb[2], ra[0] * rb[1] - ra[1] * rb[0]]),
        ('Vector(P1,P2)', lambda: comps(Vector(Point(*a), Point(*b))), [rb[i] - ra[i] for i in range(3)]),
        ('Vector(list)', lambda: comps(Vector(list(a))), list(ra)),
        ('Point(Vector).pv', lambda: comps(Point(A).pv()), list(ra)),
    ]
    for name, fn, exp in table:
        st, got = call(fn)
        if st == 'raise':
            ctx.fail('C18:%s raises %s' % (name, exc_sig(got)), repr(got))
        for i in range(3):
            ctx.require(_same(ctx, got[i], exp[i]), 'C18:%s component %d differs from the textbook formula' % (name, i))
            if ctx.mode == 'sym' and not isinstance(got[i], (SymNum, int, float, F)):
                ctx.fail('C18:%s changes the coordinate type to %s' % (name, type(got[i]).__name__))
            if ctx.mode == 'conc' and not isinstance(got[i], F):
                ctx.fail('C18:%s converts Fraction coordinates to %s' % (name, type(got[i]).__name__))
    st, d = call(lambda: A * Bv)
    if st == 'raise':
        ctx.fail('C18:dot raises %s' % exc_sig(d))
    ctx.require(_same(ctx, d, ra[0] * rb[0] + ra[1] * rb[1] + ra[2] * rb[2]), 'C18:dot product differs from the textbook formula')
    if ctx.mode == 'conc' and not isinstance(d, F):
        ctx.fail('C18:dot converts Fraction coordinates to %s' % type(d).__name__)
    # derived identities on the library's own results
    c = A.cross(Bv)
    ctx.require(_same(ctx, A * c, _raw(ctx, F(0))), 'C18:a.(a x b) != 0')
    c2 = Bv.cross(A)
    for i in range(3):
        ctx.require(_same(ctx, c[i] + c2[i], _raw(ctx, F(0))), 'C18:a x b != -(b x a)')
    lag = (A * A) * (Bv * Bv) - (A * Bv) * (A * Bv)
    ctx.require(_same(ctx, c * c, _raw(ctx, lag)), 'C18:Lagrange identity fails')
    if ctx.mode == 'sym' and shims.COUNTS['float_on_sym'] != before:
        ctx.fail('C18:ring-typed coordinates were passed through float() inside +,-,*,cross,neg,Vector(P1,P2)')
    ctx.outcome('ok')


def fam_norm(ctx, box, which):
    a = _vec3(ctx, 'a', box)
    A = Vector(*[ctx.lib(x) for x in a])
    aa = a[0] * a[0] + a[1] * a[1] + a[2] * a[2]
    ctx.assume(aa >= F(1, 10 ** 12))        # |v| >= 1e-6, the smallest magnitude the property claims
    if which == 'length':
        st, l = call(A.length)
        if st == 'raise':
            ctx.fail('C18:length raises %s' % exc_sig(l))
        ctx.require(And(l >= 0, near(l * l, aa, F(1, 10 ** 9) * aa if ctx.mode == 'conc' else F(0)) if ctx.mode == 'conc' else (l * l == aa)),
                    'C18:length is not the non-negative root of a.a')
        st, l2 = call(lambda: abs(A))
        ctx.require(st == 'ok' and (near(l2, l, F(1, 10 ** 12)) if ctx.mode == 'conc' else l2 == l), 'C18:abs(v) != v.length()')
        # length is a function of the current components: assign one through v[i] = x and measure again
        b = ctx.param('b2', box[0], box[1])
        A[2] = ctx.lib(b)
        bb = a[0] * a[0] + a[1] * a[1] + b * b
        ctx.assume(bb >= F(1, 10 ** 12))
        st, l3 = call(A.length)
        if st == 'raise':
            ctx.fail('C18:length raises %s after a component was assigned' % exc_sig(l3))
        ctx.require(And(l3 >= 0, near(l3 * l3, bb, F(1, 10 ** 9) * bb if ctx.mode == 'conc' else F(0)) if ctx.mode == 'conc' else (l3 * l3 == bb)),
                    'C18:length after v[2] = x is not the root of the current a.a')
        st, un = call(A.normalized)
        if st == 'ok':
            uu = un[0] * un[0] + un[1] * un[1] + un[2] * un[2]
            ctx.require(near(uu, 1, F(1, 10 ** 9)), 'C18:|normalized(v)| != 1 after a component was assigned')
        ctx.outcome('length')
        return
    st, u = call(A.normalized if which == 'normalized' else A.unit)
    if st == 'raise':
        ctx.outcome('raise')
        ctx.fail('C18:%s raises %s' % (which, exc_sig(u)), repr(u))
    tol = F(1, 10 ** 9)
    uu = u[0] * u[0] + u[1] * u[1] + u[2] * u[2]
    ctx.require(near(uu, 1, tol), 'C18:|%s(v)| != 1' % which)
    cr = R.cross((u[0], u[1], u[2]), a)
    dt = R.dot((u[0], u[1], u[2]), a)
    lim = tol * 8
    ctx.require(And(near(cr[0], 0, lim * 24), near(cr[1], 0, lim * 24), near(cr[2], 0, lim * 24), dt > 0),
                'C18:%s(v) does not point in the direction of v' % which)
    ctx.outcome('unit')


def fam_angle(ctx, box, nfree):
    """Vector.angle in [0, pi] and it is the arccos of the exact cosine; b is a concrete lattice vector for nfree=3"""
    a = _vec3(ctx, 'a', box)
    if nfree == 3:
        b = [F(1), F(-2), F(2)]
    else:
        b = [ctx.param('b0', *box), ctx.param('b1', *box), F(1)]
    aa = R.dot(a, a)
    bb = R.dot(b, b)
    ctx.assume(aa >= F(1, 100))
    if nfree != 3:
        ctx.assume(bb >= F(1, 100))
    A, Bv = Vector(*[ctx.lib(x) for x in a]), Vector(*[ctx.lib(x) for x in b])
    st, ang = call(lambda: A.angle(Bv))
    if st == 'raise':
        ctx.outcome('raise')
        ctx.fail('C18:Vector.angle raises %s' % exc_sig(ang), repr(ang))
    ab = R.dot(a, b)
    if ctx.mode == 'sym':
        if isinstance(ang, shims.SymAcos) and ang.kind == 'acos':
            x = ang.x
        elif isinstance(ang, (int, float, F)):
            import math
            if not (0 <= ang <= math.pi + 1e-15):
                ctx.fail('C18:angle outside [0, pi]', repr(ang))
            x = F(math.cos(ang))
        else:
            ctx.fail('C18:angle is not an arccos value', repr(ang))
        ctx.require(And(x >= -1 - F(1, 10 ** 9), x <= 1 + F(1, 10 ** 9)), 'C18:angle outside [0, pi]')
        # x has the sign of a.b and x^2 = (a.b)^2/(aa bb)
        ctx.require(And(near(x * x * aa * bb, ab * ab, F(1, 10 ** 9) * aa * bb), Or(And(x >= 0, ab >= 0), And(x <= 0, ab <= 0))),
                    'C18:angle is not arccos(a.b/(|a||b|))')
    else:
        import math
        ctx.require(0 <= ang <= math.pi + 1e-15, 'C18:angle outside [0, pi]')
        c = math.cos(ang)
        ctx.require(abs(c * c * float(aa * bb) - float(ab * ab)) <= 1e-9 * float(aa * bb) and (c * float(ab) >= -1e-12),
                    'C18:angle is not arccos(a.b/(|a||b|))')
    ctx.outcome('angle')


EXTRA_WITNESSES = {'quick': 8, 'thorough': 16}
LAT_DIRS = ['1,1,1', '2,1,1', '3,2,0', '0,2,3', '1,2,2', '1,2,3', '-1,4,0', '2,3,6']


def fam_angle_parallel(ctx, dname):
    """exactly parallel / anti-parallel pairs b = k*a on a lattice direction, every ratio k: the cosine is exactly +-1 in
    the reals, so float rounding decides what acos sees (the float replay of the lattice witnesses looks at that)"""
    import math
    a = tuple(F(x) for x in dname.split(','))
    k = ctx.param('k')
    ctx.assume(Or(k >= F(1, 4), k <= -F(1, 4)))
    b = R.vscale(k, a)
    A, Bv = Vector(*[ctx.lib(x) for x in a]), Vector(*[ctx.lib(x) for x in b])
    for X, Y in ((A, Bv), (Bv, A)):
        st, ang = call(lambda: X.angle(Y))
        if st == 'raise':
            ctx.outcome('raise')
            ctx.fail('C18:Vector.angle raises %s' % exc_sig(ang), repr(ang))
        if isinstance(ang, shims.SymAcos):
            x = ang.x
            ctx.require(And(x >= -1 - F(1, 10 ** 9), x <= 1 + F(1, 10 ** 9), Or(And(x >= 1 - F(1, 10 ** 9), k > 0), And(x <= -1 + F(1, 10 ** 9), k < 0))),
                        'C18:angle of (anti)parallel vectors is not 0 / pi')
        else:
            ok_par = Or(And(k > 0, abs(ang) <= 1e-7), And(k < 0, abs(ang - math.pi) <= 1e-7))
            ctx.require(ok_par, 'C18:angle of (anti)parallel vectors is not 0 / pi')
    ctx.outcome('angle')


def fam_named(ctx):
    z = Vector.zero()
    ctx.require([z[0], z[1], z[2]] == [0, 0, 0], 'C18:zero() is not the zero vector')
    for nm, exp in (('x_unit_vector', (1, 0, 0)), ('y_unit_vector', (0, 1, 0)), ('z_unit_vector', (0, 0, 1))):
        v = getattr(Vector, nm)()
        w = getattr(G, nm)()
        ctx.require((v[0], v[1], v[2]) == exp and (w[0], w[1], w[2]) == exp, 'C18:%s wrong' % nm)
    # a symbolic vector plus zero(), times the unit vectors
    a = _vec3(ctx, 'a', (None, None))
    A = Vector(*a)
    s = A + Vector.zero()
    for i in range(3):
        ctx.require(_same(ctx, s[i], _raw(ctx, a[i])), 'C18:v + zero() != v')
    for i, nm in enumerate(('x_unit_vector', 'y_unit_vector', 'z_unit_vector')):
        ctx.require(_same(ctx, A * getattr(Vector, nm)(), _raw(ctx, a[i])), 'C18:v . %s() is not the coordinate' % nm)
    ctx.outcome('ok')


def fam_named_reuse(ctx):
    """zero() and the unit vectors stay what their names say after vectors obtained from them were used and modified: a component
    assignment on a returned vector, and a Line built from zero() / x_unit_vector() that is moved (Line.move shifts its support
    vector in place), must not change what the next call returns"""
    a = _vec3(ctx, 'a', (-8, 8))
    names = (('zero', (0, 0, 0)), ('x_unit_vector', (1, 0, 0)), ('y_unit_vector', (0, 1, 0)), ('z_unit_vector', (0, 0, 1)))

    def check(when):
        for nm, exp in names:
            getters = [getattr(Vector, nm)] + ([getattr(G, nm)] if hasattr(G, nm) else [])
            for g in getters:
                v = g()
                ctx.require(all(isinstance(c, (int, float)) and not isinstance(c, bool) for c in (v[0], v[1], v[2]))
                            and (v[0], v[1], v[2]) == exp, 'C18:%s() is wrong %s' % (nm, when))
    for i in range(3):
        for nm, exp in names:
            v = getattr(Vector, nm)()
            v[i] = a[i]
        check('after a component of an earlier result was assigned')
    st, res = call(lambda: Line(Vector.zero(), G.x_unit_vector()).move(Vector(*a)))
    if st == 'raise':
        ctx.fail('C18:moving Line(zero(), x_unit_vector()) raises %s' % exc_sig(res), repr(res))
    check('after a Line built from zero() / x_unit_vector() was moved')
    s = Vector(*a) + Vector.zero()
    for i in range(3):
        ctx.require(_same(ctx, s[i], _raw(ctx, a[i])), 'C18:v + zero() != v after earlier results were modified')
    ctx.outcome('ok')


def families(tier, seed):
    fams = [
        Family('ops/unbounded', fam_ops, ((None, None),), must_reach=('ok',)),
        Family('named', fam_named, (), must_reach=('ok',)),
        Family('named-reuse', fam_named_reuse, (), must_reach=('ok',)),
        Family('length/box', fam_norm, ((-1000, 1000), 'length'), must_reach=('length',)),
        Family('normalized/box', fam_norm, ((-8, 8), 'normalized'), must_reach=('unit',)),
        Family('unit/box', fam_norm, ((-8, 8), 'unit'), must_reach=('unit',)),
        Family('angle/a-free', fam_angle, ((-8, 8), 3), must_reach=('angle',)),
    ]
    for dname in (LAT_DIRS[:4] if tier == 'quick' else LAT_DIRS):
        fams.append(Family('angle/parallel/dir:%s' % dname, fam_angle_parallel, (dname,), must_reach=('angle',)))
    if tier == 'thorough':
        fams.append(Family('normalized/bigbox', fam_norm, ((-10 ** 6, 10 ** 6), 'normalized'), must_reach=('unit',)))
        fams.append(Family('angle/5-free', fam_angle, ((-8, 8), 5), must_reach=('angle',)))
    return fams


# ----------------------------------------------------------------------------- finite type table (exhaustive enumeration)
class Ring:
    """a user-defined ring type (Z[sqrt2]) that refuses float(): any silent conversion raises"""

    def __init__(self, a, b=0):
        if isinstance(a, Ring):
            a, b = a.a, a.b
        self.a, self.b = F(a), F(b)

    def __add__(s, o):
        o = Ring(o)
        return Ring(s.a + o.a, s.b + o.b)
    __radd__ = __add__

    def __sub__(s, o):
        o = Ring(o)
        return Ring(s.a - o.a, s.b - o.b)

    def __rsub__(s, o):
        return Ring(o) - s

    def __mul__(s, o):
        if not isinstance(o, (Ring, int, F)):
            return NotImplemented
        o = Ring(o)
        return Ring(s.a * o.a + 2 * s.b * o.b, s.a * o.b + s.b * o.a)
    __rmul__ = __mul__

    def __format__(s, spec):
        return 'Ring(%s,%s)' % (s.a, s.b)

    def __neg__(s):
        return Ring(-s.a, -s.b)

    def __eq__(s, o):
        o = Ring(o)
        return (s.a, s.b) == (o.a, o.b)

    def __hash__(s):
        return hash((s.a, s.b))

    def __float__(s):
        raise TypeError('Ring must not be converted to float')


def extra(tier, seed):
    """type preservation / promotion: a finite table, enumerated exhaustively (not a solver question)"""
    from itertools import product
    core.set_engine(None)
    viol, n = [], 0
    mk = {'int': lambda v: int(v), 'float': lambda v: float(v), 'Fraction': lambda v: F(v), 'Decimal': lambda v: Decimal(v),
          'Ring': lambda v: Ring(v)}
    rank = ['Ring', 'Fraction', 'Decimal', 'float', 'int']
    types = {'int': int, 'float': float, 'Fraction': F, 'Decimal': Decimal, 'Ring': Ring}
    for combo in product(rank, repeat=3):
        if 'Decimal' in combo and ('Fraction' in combo or 'Ring' in combo):
            pass
        want = next(t for t in rank if t in combo)
        vals = [mk[t](v) for t, v in zip(combo, (1, 2, 3))]
        for ctor in (Vector, Point):
            n += 1
            try:
                o = ctor(*vals)
                got = [type(c) for c in ((o[0], o[1], o[2]))]
            except Exception as e:
                if 'Decimal' in combo and want in ('Fraction', 'Ring'):
                    continue        # Fraction(Decimal) works, Ring(Decimal) works; anything else raising is reported
                viol.append(dict(sig='C18:promotion raises for %s' % ctor.__name__, params=dict(types=combo), detail=repr(e), replayed=True, kind='direct', family='type-table'))
                continue
            if any(g is not types[want] for g in got):
                viol.append(dict(sig='C18:promotion of mixed coordinate types is not to the most general type (%s)' % ctor.__name__,
                                 params=dict(types=combo), detail='got %s want %s' % ([g.__name__ for g in got], want), replayed=True,
                                 kind='direct', family='type-table'))
    for t in rank:
        a = Vector(*[mk[t](v) for v in (1, -2, 3)])
        b = Vector(*[mk[t](v) for v in (4, 5, -6)])
        k = mk[t](3)
        ops = {'a+b': lambda: a + b, 'a-b': lambda: a - b, 'a*k': lambda: a * k, 'k*a': lambda: k * a, '-a': lambda: -a,
               'axb': lambda: a.cross(b), 'Vector(P1,P2)': lambda: Vector(Point(a), Point(b))}
        exp = {'a+b': (5, 3, -3), 'a-b': (-3, -7, 9), 'a*k': (3, -6, 9), 'k*a': (3, -6, 9), '-a': (-1, 2, -3), 'axb': (-3, 18, 13),
               'Vector(P1,P2)': (3, 7, -9)}
        for name, fn in ops.items():
            n += 1
            try:
                r = fn()
                got = [r[0], r[1], r[2]]
                ok = all(type(g) is types[t] for g in got) and all(g == mk[t](e) for g, e in zip(got, exp[name]))
            except Exception as e:
                ok = False
                got = repr(e)
            if not ok:
                viol.append(dict(sig='C18:%s does not preserve coordinate type %s' % (name, t), params=dict(type=t), detail=str(got),
                                 replayed=True, kind='direct', family='type-table'))
        n += 1
        d = a * b
        if type(d) is not types[t] or d != mk[t](-24):
            viol.append(dict(sig='C18:dot does not preserve coordinate type %s' % t, params=dict(type=t), detail=repr(d), replayed=True,
                             kind='direct', family='type-table'))
    return dict(violations=viol, coverage=dict(type_table_cases=n, type_table_exhaustive=True,
                                               type_table_note='finite table of numeric type mixtures, enumerated exhaustively; not the deciding step of the universally quantified claims'))


def replay_direct(data):
    r = extra('quick', 0)
    for v in r['violations']:
        if v['sig'] == data['sig']:
            print('VIOLATION property=C18 replay=(type table) %s' % v['sig'])
            return 1
    return 0


def _twin_sub_reversed():
    Vector.__sub__ = lambda self, other: Vector([y - x for x, y in zip(self, other)])


TWINS = {'Vector subtraction reversed': (r'^ops/unbounded$', _twin_sub_reversed)}


META = dict(
    title='vector algebra',
    level_text=('Symbolic execution of the real Vector/Point code with all 6-7 coordinates as unbounded real solver variables: z3 proves that '
                'every operator result equals the textbook component formula (the formula is built as a raw z3 term, independently of the '
                'engine\'s polynomial arithmetic), the derived identities, |normalized(v)|=1 and direction (exact real sqrt atom), and angle in [0,pi] '
                'with the exact cosine.  The symbolic proxy is itself a user-defined ring type, so type preservation is observed on it; the finite '
                'table of concrete numeric types is enumerated exhaustively as an auxiliary check.'),
    level_note='exact-real semantics; float rounding of length/normalized over magnitudes 1e-6..1e6 is not modelled (outside claim)',
    technique='symbolic execution of real code, z3 proves polynomial identities (QF_NRA) on every path',
    bounds=dict(coordinates='unbounded reals for the polynomial identities; |coordinate| <= 8 (1e6 thorough) for normalized; angle with one concrete operand (quick)'),
    outside_claim=['IEEE rounding of length / normalized / angle', 'Decimal square roots (not claimed by the property)'],
    assumptions=['sqrt modelled as the exact real root', 'acos modelled by monotonicity (SymAcos)'],
)

"""C10 -- distance is the exact Euclidean distance, symmetric and total."""
from .common import *
from .c01 import build, TEMPLATES, _cls
from symgeo.run import Family

PROP = 'C10'
BUDGET = {'quick': 120, 'thorough': 900}
PAIRS = [('Point', 'Point'), ('Point', 'Line'), ('Line', 'Point'), ('Line', 'Line'), ('Point', 'Plane'), ('Plane', 'Point'),
         ('Line', 'Plane'), ('Plane', 'Line')]


def dist2(A, Bq):
    """exact squared distance as (numerator, denominator) formulas, with case split expressed through Ite-free
    alternatives: returns list of (condition, num, den)"""
    ka, kb = A.kind, Bq.kind
    if ka == 'Point' and kb == 'Point':
        return [(True, R.norm2(R.vsub(A.p, Bq.p)), 1)]
    if ka == 'Point' and kb == 'Line' or ka == 'Line' and kb == 'Point':
        L, P = (Bq, A) if kb == 'Line' else (A, Bq)
        w = R.vsub(P.p, L.p)
        return [(True, R.norm2(R.cross(w, L.d)), R.norm2(L.d))]
    if ka == 'Point' and kb == 'Plane' or ka == 'Plane' and kb == 'Point':
        Pl, P = (Bq, A) if kb == 'Plane' else (A, Bq)
        q = R.dot(Pl.n, R.vsub(P.p, Pl.p))
        return [(True, q * q, R.norm2(Pl.n))]
    if ka == 'Line' and kb == 'Line':
        w = R.vsub(Bq.p, A.p)
        c = R.cross(A.d, Bq.d)
        cc = R.norm2(c)
        wc = R.dot(w, c)
        return [(Not(cc == 0), wc * wc, cc), (cc == 0, R.norm2(R.cross(w, A.d)), R.norm2(A.d))]
    if ka == 'Line' and kb == 'Plane' or ka == 'Plane' and kb == 'Line':
        Pl, L = (Bq, A) if kb == 'Plane' else (A, Bq)
        nd = R.dot(Pl.n, L.d)
        q = R.dot(Pl.n, R.vsub(L.p, Pl.p))
        return [(Not(nd == 0), 0, 1), (nd == 0, q * q, R.norm2(Pl.n))]
    raise TypeError((ka, kb))


def fam_dist(ctx, ka, kb, template, fr_name, perm, form):
    A, Bq = build(ctx, ka, kb, template, fr_name, perm)
    R.band_pair(ctx, A, Bq)
    a, b = mk(ctx, A), mk(ctx, Bq)
    sig = 'C10:distance(%s,%s)' % (ka, kb)
    if form == 'method' and ka != 'Point':
        st, r = call(lambda: a.distance(b))
    elif form == 'method' and ka == 'Point' and kb == 'Point':
        st, r = call(lambda: a.distance(b))
    else:
        st, r = call(lambda: G.distance(a, b))
    if st == 'raise':
        ctx.outcome('raise')
        ctx.fail(sig + ' raises %s' % exc_sig(r), repr(r))
    tol = F(1, 10 ** 9)
    ctx.require(r >= -tol, sig + ' negative')
    for cond, num, den in dist2(A, Bq):
        # r^2 * den == num (relative 1e-9)
        lhs = r * r * den
        ctx.require(Implies(cond, And(lhs - num <= tol * (den + num), num - lhs <= tol * (den + num))), sig + ' is not the Euclidean distance')
    # symmetry
    st2, r2 = call(lambda: G.distance(b, a))
    if st2 == 'raise':
        ctx.fail('C10:distance(%s,%s) raises %s' % (kb, ka, exc_sig(r2)), repr(r2))
    ctx.require(near(r, r2, F(1, 10 ** 9)), sig + ' not symmetric')
    # zero exactly when the operands intersect
    st3, inter = call(lambda: G.intersection(a, b))
    if st3 == 'ok':
        zero = And(*[Implies(cond, num == 0) for cond, num, den in dist2(A, Bq)])
        ctx.outcome('meet' if inter is not None else 'apart')
        ctx.require(Iff(zero, inter is not None), sig + ' zero-ness disagrees with intersection()')
        if inter is not None:
            ctx.require(near(r, 0, F(1, 10 ** 8)), sig + ' non-zero although the operands intersect')
    else:
        ctx.outcome('inter-raise')


def fam_dist_m1m2(ctx, axis, kb):
    """a Point with the coordinate -1 against a Point / Line / Plane anchored at the same coordinates except -2 in that place: the
    distance is exactly 1.  (CPython has hash(-1) == hash(-2), for floats and tuples of them too: any shortcut of distance() that goes
    through hashes rather than coordinates shows up in the float replay of these paths.)"""
    e = [tuple(F(1) if i == j else F(0) for i in range(3)) for j in range(3)]
    a, b, c = e[axis], e[(axis + 1) % 3], e[(axis + 2) % 3]
    s_ = ctx.choice('s', [0, 1])
    pa = R.affine((F(0), F(0), F(0)), (F(-1), a), (s_, b))
    pb = R.affine((F(0), F(0), F(0)), (F(-2), a), (s_, b))
    P_ = lambda v: Point(*[ctx.lib(x) for x in v])
    V_ = lambda v: Vector(*[ctx.lib(x) for x in v])
    A = P_(pa)
    Bq = P_(pb) if kb == 'Point' else Line(P_(pb), V_(c)) if kb == 'Line' else Plane(P_(pb), V_(a))
    sig = 'C10:distance(Point,%s) between coordinates -1 and -2' % kb
    for x, y in ((A, Bq), (Bq, A)):
        st, r = call(lambda: G.distance(x, y))
        if st == 'raise':
            ctx.fail(sig + ' raises %s' % exc_sig(r), repr(r))
        ctx.require(near(r, 1, F(1, 10 ** 9)), sig + ' is not 1')
    if kb == 'Point':        # (Point.distance is defined for Points only)
        st, r = call(lambda: A.distance(Bq))
        ctx.require(st == 'ok' and near(r, 1, F(1, 10 ** 9)), sig + ' (method form) is not 1')
    ctx.outcome('apart')


def families(tier, seed):
    import random
    rng = random.Random(seed)
    # pyth7: unit vectors with non-dyadic components, so float dot products of exactly parallel / orthogonal directions do not cancel exactly
    frames = ['axis', 'oblique', 'pyth7'] if tier == 'quick' else ['axis', 'planar', 'oblique', 'pyth3', 'pyth7', 'shear', B.random_frame_name(rng), B.random_frame_name(rng)]
    fams = []
    for fi, fr_name in enumerate(frames):
        perms = [None] if tier == 'quick' else [None, rng.randrange(48)]
        for perm in perms:
            tag = '%s%s' % (fr_name, '' if perm is None else '#%d' % perm)
            for ka, kb in PAIRS:
                temps = TEMPLATES.get((_cls(ka), _cls(kb)), ['slice'])
                for tp in temps:
                    for form in (('function', 'method') if fi == 0 else ('function',)):
                        if form == 'method' and ka == 'Point' and kb != 'Point':
                            continue
                        fams.append(Family('%s-%s/%s/%s/%s' % (ka, kb, tp, tag, form), fam_dist, (ka, kb, tp, fr_name, perm, form)))
    for axis in range(3):
        for kb in ('Point', 'Line', 'Plane'):
            fams.append(Family('Point-%s/-1vs-2/axis%d' % (kb, axis), fam_dist_m1m2, (axis, kb)))
    return fams


def _twin_signed_distance():
    """mutant: distance(Line, Line) loses the absolute value (negative for one orientation of the common normal)"""
    from .c01 import _wrap_public

    def post(a, b, r):
        if isinstance(a, Line) and isinstance(b, Line):
            n = a.dv.cross(b.dv)
            s = (b.sv - a.sv) * n
            if not isinstance(s, (int, float, F)) and bool(s < 0) or isinstance(s, (int, float, F)) and s < 0:
                return -r
        return r
    _wrap_public('distance', post)


TWINS = {'signed Line-Line distance': (r'^Line-Line/skew/axis/function$', _twin_signed_distance)}


META = dict(
    title='distance is the exact Euclidean distance',
    level_text=('Bounded symbolic model checking of the real distance() code (and the intersection() it calls) for the five documented pairs in '
                'both orders and in method form: the second operand depends on 2 real parameters (offset, tilt, crossing, skew templates; the parallel '
                'and coincident cases are parameter values).  On every path z3 proves d >= 0, d^2 = exact rational squared distance, symmetry, '
                'and d = 0 <=> intersection is not None.'),
    level_note='exact-real semantics; per-path witnesses replayed with floats on the un-shimmed library; finite frame catalogue',
    technique='symbolic execution of real code over exact reals (z3 QF_NRA), all paths; oracle = rational squared distance',
    bounds=dict(parameters='2 reals in [-3,3]', frames='2 (quick) / 6 + random signed permutation (thorough)'),
    outside_claim=['both operands moving freely', 'poses outside the catalogue', 'IEEE rounding'],
    assumptions=['band_pair admissibility'],
)

"""C06 -- length, area and volume equal the exact measures."""
import random, itertools
from .common import *
from symgeo.run import Family
from symgeo import shims

PROP = 'C06'
BUDGET = {'quick': 150, 'thorough': 900}
REL = F(1, 10 ** 9)


def sq_close(ctx, val, exact_sq, what):
    """val >= 0 and val^2 == exact_sq up to relative 1e-9 (val may contain exact square-root atoms)"""
    ctx.require(val >= -REL, what + ' is negative')
    v2 = val * val
    ctx.require(And(v2 - exact_sq <= 2 * REL * (exact_sq + REL), exact_sq - v2 <= 2 * REL * (exact_sq + REL)), what + ' differs from the exact value')


def shoelace_sq(vs):
    """(2*area)^2 of a planar polygon given as a vertex cycle: |sum (v_i - v_0) x (v_{i+1} - v_0)|^2"""
    s = (F(0), F(0), F(0))
    for i in range(1, len(vs) - 1):
        s = R.vadd(s, R.cross(R.vsub(vs[i], vs[0]), R.vsub(vs[i + 1], vs[0])))
    return R.norm2(s)


def fam_segment(ctx, fr_name):
    e1, e2, e3 = B.frame_vectors(fr_name)
    A = (F(1, 2), F(-1, 4), F(1))
    t, u = ctx.param('t'), ctx.param('u')
    Bp = R.affine(A, (t, e1), (u, e2))
    d2 = R.norm2(R.vsub(Bp, A))
    ctx.assume(d2 >= F(1, 100))
    s = Segment(pt(ctx, A), pt(ctx, Bp))
    st, l = call(s.length)
    if st == 'raise':
        ctx.fail('C06:Segment.length raises %s' % exc_sig(l), repr(l))
    sq_close(ctx, l, d2, 'C06:Segment.length')
    st, l2 = call(lambda: pt(ctx, Bp).distance(pt(ctx, A)))
    if st == 'raise':
        ctx.fail('C06:Point.distance raises %s' % exc_sig(l2), repr(l2))
    sq_close(ctx, l2, d2, 'C06:Point.distance')
    # the measure is a function of the current end points: replace them through item assignment and measure again
    Cp = R.affine(A, (u, e1), (-t, e3))
    Dp = R.affine(A, (F(1, 2), e3))
    for idx, newp, other in ((1, Cp, A), (0, Dp, Cp)):
        dd = R.norm2(R.vsub(newp, other))
        ctx.assume(dd >= F(1, 100))
        st, _ = call(lambda: s.__setitem__(idx, pt(ctx, newp)))
        if st == 'raise':
            ctx.fail('C06:Segment[%d] = Point raises %s' % (idx, exc_sig(_)), repr(_))
        st, l3 = call(s.length)
        if st == 'raise':
            ctx.fail('C06:Segment.length raises %s after an end point was replaced' % exc_sig(l3), repr(l3))
        sq_close(ctx, l3, dd, 'C06:Segment.length after seg[%d] = Point' % idx)
    ctx.outcome('ok')


def fam_pyramid(ctx, shape, fr_name):
    P = B.polygon(shape, fr_name)
    n = P.n
    apex = tuple(ctx.param('a%d' % i) for i in range(3))
    q = R.dot(n, R.vsub(apex, P.verts[0]))
    ctx.assume(Or(q * q >= F(1, 100) * R.norm2(n)))
    base = ConvexPolygon(tuple(pt(ctx, v) for v in P.verts))
    st, pyr = call(lambda: G.Pyramid(base, pt(ctx, apex), direct_call=False))
    if st == 'raise':
        ctx.fail('C06:Pyramid raises %s' % exc_sig(pyr), repr(pyr))
    nn = R.norm2(n)
    st, h = call(pyr.height)
    if st == 'raise':
        ctx.fail('C06:Pyramid.height raises %s' % exc_sig(h), repr(h))
    sq_close(ctx, h, q * q / nn, 'C06:Pyramid.height')
    a2 = shoelace_sq(P.verts) / 4            # exact base area squared
    v2 = a2 * q * q / nn / 9
    for name, fn in (('Pyramid.volume', pyr.volume), ('volume(Pyramid)', lambda: G.volume(pyr))):
        st, v = call(fn)
        if st == 'raise':
            ctx.fail('C06:%s raises %s' % (name, exc_sig(v)), repr(v))
        sq_close(ctx, v, v2, 'C06:' + name)
    ctx.outcome('ok')


def fam_moved_pyramid(ctx, shape, fr_name):
    """multi-step: a polygon is translated in place by a symbolic vector and only then used as the base of a Pyramid /
    measured; the function form volume() and the methods must agree with the exact values of the moved polygon"""
    P = B.polygon(shape, fr_name)
    v = tuple(ctx.param('v%d' % i) for i in range(3))
    h = ctx.param('h', F(1, 4), 3)
    base = ConvexPolygon(tuple(pt(ctx, x) for x in P.verts))
    st, _ = call(lambda: base.move(vec(ctx, v)))
    if st == 'raise':
        ctx.fail('C06:ConvexPolygon.move raises %s' % exc_sig(_), repr(_))
    n = P.n
    nn = R.norm2(n)
    apex = R.affine(R.vadd(P.centre, v), (h, n))
    a2 = shoelace_sq(P.verts) / 4
    sq_close(ctx, base.area(), a2, 'C06:area of a polygon after move')
    st, pyr = call(lambda: G.Pyramid(base, pt(ctx, apex), direct_call=False))
    if st == 'raise':
        ctx.fail('C06:Pyramid on a moved base raises %s' % exc_sig(pyr), repr(pyr))
    hh = h * h * nn                   # height^2 = (h |n|)^2
    sq_close(ctx, pyr.height(), hh, 'C06:Pyramid.height on a moved base')
    v2 = a2 * hh / 9
    for name, fn in (('Pyramid.volume', pyr.volume), ('volume(Pyramid)', lambda: G.volume(pyr))):
        st, vol = call(fn)
        if st == 'raise':
            ctx.fail('C06:%s raises %s' % (name, exc_sig(vol)), repr(vol))
        sq_close(ctx, vol, v2, 'C06:%s on a moved base' % name)
    ctx.outcome('ok')


def _moving_polygon(ctx, shape, fr_name):
    """vertex cycle with vertex 0 moving outward/inward along the line centre->vertex (stays strictly convex)"""
    P = B.polygon(shape, fr_name)
    t = ctx.param('t', F(-1, 4), 1)
    out = R.vsub(P.verts[0], P.centre)
    vs = [R.affine(P.verts[0], (t, out))] + list(P.verts[1:])
    return P, vs


def _exact(fn):
    """run a family with exact concrete square roots (so that Heron radicands stay exact polynomials)"""
    def g(ctx, *a):
        old = shims.EXACT_CONCRETE_SQRT[0]
        shims.EXACT_CONCRETE_SQRT[0] = True
        try:
            return fn(ctx, *a)
        finally:
            shims.EXACT_CONCRETE_SQRT[0] = old
    g.__name__ = fn.__name__
    return g


def fam_polygon(ctx, shape, fr_name, perm):
    P, vs = _moving_polygon(ctx, shape, fr_name)
    order = [vs[i] for i in perm]
    st, poly = call(lambda: ConvexPolygon(tuple(pt(ctx, v) for v in order)))
    if st == 'raise':
        ctx.fail('C06:ConvexPolygon raises %s on a convex vertex set' % exc_sig(poly), repr(poly))
    st, per = call(poly.length)
    if st == 'raise':
        ctx.fail('C06:ConvexPolygon.length raises %s' % exc_sig(per), repr(per))
    # perimeter: sum of exact edge lengths (each an exact square root)
    import math
    k = len(vs)
    if ctx.mode == 'sym':
        exact = 0
        for i in range(k):
            exact = exact + core.sym_sqrt(SymNum(core._poly_of(R.norm2(R.vsub(vs[i], vs[(i + 1) % k])))) if isinstance(R.norm2(R.vsub(vs[i], vs[(i + 1) % k])), SymNum)
                                          else R.norm2(R.vsub(vs[i], vs[(i + 1) % k])))
        ctx.require(near(per, exact, F(1, 10 ** 8)), 'C06:ConvexPolygon.length differs from the exact perimeter')
    else:
        exact = sum(math.sqrt(float(R.norm2(R.vsub(vs[i], vs[(i + 1) % k])))) for i in range(k))
        ctx.require(abs(per - exact) <= 1e-9 * exact, 'C06:ConvexPolygon.length differs from the exact perimeter')
    st, ar = call(poly.area)
    if st == 'raise':
        ctx.outcome('area-raise')
        ctx.fail('C06:ConvexPolygon.area raises %s' % exc_sig(ar), repr(ar))
    sq_close(ctx, ar, shoelace_sq(vs) / 4, 'C06:ConvexPolygon.area')
    ctx.outcome('ok')


def fam_polyhedron(ctx, shape, fr_name, order_seed, rigid=False):
    rng = random.Random(order_seed)
    K = B.body(shape, fr_name)
    if rigid:
        # rigid symbolic translation: differences of coordinates are concrete, so this family exercises the face order /
        # orientation handling on every path but the measures themselves collapse to concrete numbers
        u = tuple(ctx.param('u%d' % i) for i in range(3))
        mapv = lambda v: R.vadd(v, u)
    else:
        t = ctx.param('t', F(-1, 4), 1)
        # one vertex moves along centre -> vertex; pick a vertex all of whose faces are triangles (faces stay planar)
        tri_v = [v for v in K.verts if all(len(f) == 3 for f in K.faces if v in f)]
        mv = tri_v[0] if tri_v else None
        if mv is None:
            ctx.outcome('skip')
            return
        out = R.vsub(mv, K.centre)
        new = R.affine(mv, (t, out))
        mapv = lambda v: new if v == mv else v
    faces = [[mapv(v) for v in f] for f in K.faces]
    order = list(range(len(faces)))
    rng.shuffle(order)
    flip = set(rng.sample(order, len(order) // 2))
    st, body = call(lambda: ConvexPolyhedron(tuple(ConvexPolygon(tuple(pt(ctx, v) for v in (reversed(faces[i]) if i in flip else faces[i]))) for i in order)))
    if st == 'raise':
        ctx.fail('C06:ConvexPolyhedron raises %s on a closed convex body' % exc_sig(body), repr(body))
    c = tuple(sum(mapv(v)[i] for v in K.verts) / len(K.verts) for i in range(3))
    vol6 = 0
    for f in faces:
        for i in range(1, len(f) - 1):
            vol6 = vol6 + R.det3(R.vsub(f[0], c), R.vsub(f[i], c), R.vsub(f[i + 1], c))
    # faces are oriented outward in the catalogue, so vol6 > 0 on the admitted range
    for name, fn in (('ConvexPolyhedron.volume', body.volume), ('volume(ConvexPolyhedron)', lambda: G.volume(body))):
        st, v = call(fn)
        if st == 'raise':
            ctx.outcome('volume-raise')
            ctx.fail('C06:%s raises %s' % (name, exc_sig(v)), repr(v))
        ctx.require(near(v * 6, vol6, 6 * REL * 100), 'C06:%s differs from the exact volume' % name)
    st, ln = call(body.length)
    if st == 'raise':
        ctx.fail('C06:ConvexPolyhedron.length raises %s' % exc_sig(ln), repr(ln))
    import math
    edges = [(mapv(a), mapv(b)) for a, b in K.edges]
    if ctx.mode == 'sym':
        exact = 0
        for a, b in edges:
            d2 = R.norm2(R.vsub(a, b))
            exact = exact + (core.sym_sqrt(d2) if isinstance(d2, SymNum) else math.sqrt(d2))
        ctx.require(near(ln, exact, F(1, 10 ** 7)), 'C06:ConvexPolyhedron.length differs from the exact edge-length sum')
    else:
        exact = sum(math.sqrt(float(R.norm2(R.vsub(a, b)))) for a, b in edges)
        ctx.require(abs(ln - exact) <= 1e-9 * exact, 'C06:ConvexPolyhedron.length differs from the exact edge-length sum')
    st, ar = call(body.area)
    if st == 'raise':
        ctx.fail('C06:ConvexPolyhedron.area raises %s' % exc_sig(ar), repr(ar))
    if ctx.mode == 'sym':
        exact = 0
        for f in faces:
            s2 = shoelace_sq(f) / 4
            exact = exact + (core.sym_sqrt(s2) if isinstance(s2, SymNum) else math.sqrt(s2))
        ctx.require(near(ar, exact, F(1, 10 ** 7)), 'C06:ConvexPolyhedron.area differs from the exact surface area')
    else:
        exact = sum(math.sqrt(float(shoelace_sq(f) / 4)) for f in faces)
        ctx.require(abs(ar - exact) <= 1e-9 * exact, 'C06:ConvexPolyhedron.area differs from the exact surface area')
    ctx.outcome('ok')


fam_polygon = _exact(fam_polygon)
fam_polyhedron = _exact(fam_polyhedron)


def families(tier, seed):
    rng = random.Random(seed)
    fams = []
    frames = ['axis', 'oblique'] if tier == 'quick' else ['axis', 'planar', 'oblique', 'pyth3']
    for fr in frames:
        fams.append(Family('segment/%s' % fr, fam_segment, (fr,), must_reach=('ok',)))
        for sh in (('tri', 'quad') if tier == 'quick' else ('tri', 'quad', 'penta', 'hexa')):
            fams.append(Family('pyramid/%s@%s' % (sh, fr), fam_pyramid, (sh, fr), must_reach=('ok',)))
    for sh, fr in ([('quad', 'axis'), ('tri', 'oblique')] if tier == 'quick' else [(s, f) for s in ('tri', 'quad', 'penta') for f in ('axis', 'oblique', 'pyth3')]):
        fams.append(Family('moved-pyramid/%s@%s' % (sh, fr), fam_moved_pyramid, (sh, fr), must_reach=('ok',)))
    shapes = [('tri', 'axis'), ('quad', 'axis'), ('penta', 'axis'), ('quad', 'oblique'), ('para12', 'axis')] if tier == 'quick' else \
        [(s, f) for s in ('tri', 'quad', 'penta', 'hexa', 'para12') for f in ('axis', 'oblique', 'pyth3')]
    for sh, fr in shapes:
        n = len(B.UNIT_POLYS[sh])
        perms = [list(range(n)), list(reversed(range(n)))] + [rng.sample(range(n), n) for _ in range(1 if tier == 'quick' else 4)]
        if tier == 'thorough' and n <= 4:
            perms = [list(p) for p in itertools.permutations(range(n))]
        for pi, perm in enumerate(perms):
            fams.append(Family('polygon/%s@%s/order%s' % (sh, fr, ''.join(map(str, perm))), fam_polygon, (sh, fr, perm), must_reach=('ok',)))
    rigid = [('tetra', 'axis'), ('cube', 'oblique'), ('prism', 'axis'), ('pyramid', 'pyth3'), ('octa', 'axis')]
    if tier == 'thorough':
        rigid = [(s, f) for s in B.UNIT_SHAPES for f in ('axis', 'oblique', 'pyth3')]
    for sh, fr in rigid:
        for os_ in range(3 if tier == 'quick' else 8):
            fams.append(Family('polyhedron-rigid/%s@%s/order%d' % (sh, fr, os_), fam_polyhedron, (sh, fr, seed * 100 + os_, True), must_reach=('ok',)))
    if tier == 'thorough':
        # a moving vertex makes volume a sum of products of nested radicals: attempted with a long budget, undecided
        # families are reported as such
        for sh, fr in [(s, f) for s in ('tetra', 'pyramid', 'octa') for f in ('axis', 'oblique')]:
            for os_ in range(3):
                fams.append(Family('polyhedron/%s@%s/order%d' % (sh, fr, os_), fam_polyhedron, (sh, fr, seed * 100 + os_), must_reach=('ok',),
                                   budget_s=1200))
    return fams


def _twin_triangle_area():
    orig = ConvexPolygon.area
    ConvexPolygon.area = lambda self: orig(self) * 1.000001


TWINS = {'polygon area off by 1e-6 relative': (r'^polygon/quad@axis/order0123$', _twin_triangle_area)}


META = dict(
    title='length, area and volume are the exact measures',
    level_text=('Bounded symbolic model checking of the real measure code: Segment.length / Point.distance with an endpoint on a 2-parameter slice, Pyramid '
                'height/volume (method and function) with a fully symbolic apex (3 reals) over concrete bases, polygon perimeter and area and polyhedron '
                'edge-length sum, surface area and volume (method and function) with one vertex moving along a line (1 real) for several vertex orders, face '
                'orders and face orientations.  Square roots are exact real atoms (r >= 0, r^2 = radicand, squares rewritten), so z3 proves measure^2 == exact '
                'rational polynomial (shoelace / determinant formulas) with relative tolerance 1e-9 on every path.'),
    level_note='exact-real semantics (Heron evaluated over exact reals); vertex/face orders are enumerated concretely, the moving vertex is symbolic',
    technique='symbolic execution of real code over exact reals with exact square-root atoms (z3 QF_NRA), all paths',
    bounds=dict(parameters='1-3 reals', polygons='3-5 (6 thorough) vertices', polyhedra='tetrahedron, square pyramid, octahedron'),
    outside_claim=['polyhedron surface area / volume with a moving vertex in the quick tier (thorough tier attempts it; the sum of nested radicals was not decided by z3 within 300 s in the measurements: only rigidly translated polyhedra in all face orders/orientations are covered there)', 'several vertices moving at once', 'polygons with more than 6 and polyhedra with more than 6 vertices', 'IEEE rounding inside Heron\'s formula'],
    assumptions=['moving vertex stays in the strictly convex range'],
)

"""C20 -- queries are pure and composite objects own their data."""
import copy
from .common import *
from . import c04, c02
from .c07 import same
from .c08 import H_
from symgeo import shims
from symgeo.run import Family

PROP = 'C20'
BUDGET = {'quick': 120, 'thorough': 900}
GEOCLS = (Point, Vector, Line, Plane, Segment, HalfLine, ConvexPolygon, ConvexPolyhedron, G.Pyramid)


def snap(o, depth=0, seen=None):
    """full attribute snapshot: nested tuples with numeric leaves (symbolic or concrete)"""
    if seen is None:
        seen = set()
    if isinstance(o, (int, float, F, SymNum)) and not isinstance(o, bool):
        return ('num', o)
    if o is None or isinstance(o, (str, bool)):
        return ('lit', o)
    if isinstance(o, (list, tuple)):
        return ('seq', tuple(snap(x, depth + 1, seen) for x in o))
    if isinstance(o, (set, frozenset)):
        return ('set', tuple(snap(x, depth + 1, seen) for x in o))
    if isinstance(o, dict):
        return ('dict', tuple((k, snap(v, depth + 1, seen)) for k, v in o.items()))
    if isinstance(o, GEOCLS):
        if id(o) in seen or depth > 12:
            return ('ref', type(o).__name__)
        seen = seen | {id(o)}
        return ('obj', type(o).__name__, tuple((k, snap(v, depth + 1, seen)) for k, v in sorted(vars(o).items())))
    return ('other', type(o).__name__)


def snap_eq(a, b):
    """formula: two snapshots are identical (numbers equal exactly)"""
    if a[0] != b[0]:
        return False
    k = a[0]
    if k == 'num':
        return a[1] == b[1]
    if k == 'lit':
        return a[1] == b[1]
    if k == 'seq':
        if len(a[1]) != len(b[1]):
            return False
        return And(*[snap_eq(x, y) for x, y in zip(a[1], b[1])])
    if k == 'set':          # unordered: iteration order is not an observable attribute
        if len(a[1]) != len(b[1]):
            return False
        return And(*([Or(*[snap_eq(x, y) for y in b[1]]) for x in a[1]] + [Or(*[snap_eq(x, y) for x in a[1]]) for y in b[1]]))
    if k == 'dict':
        if len(a[1]) != len(b[1]):
            return False
        return And(*[And(x[0] == y[0], snap_eq(x[1], y[1])) for x, y in zip(a[1], b[1])])
    if k == 'obj':
        if a[1] != b[1] or len(a[2]) != len(b[2]):
            return False
        return And(*[And(x[0] == y[0], snap_eq(x[1], y[1])) for x, y in zip(a[2], b[2])])
    return a[1] == b[1]


def queries(ka, kb):
    q = [('intersection', lambda a, b: G.intersection(a, b)), ('==', lambda a, b: a == b), ('hash', lambda a, b: (H_(a), H_(b))),
         ('repr', lambda a, b: (repr(a), repr(b)))]
    if kb != 'Point' or ka == 'Point':
        pass
    q.append(('in', lambda a, b: a in b))
    if {ka, kb} <= {'Point', 'Line', 'Plane'}:
        q.append(('distance', lambda a, b: G.distance(a, b)))
    if {ka, kb} <= {'Line', 'Plane'}:
        q += [('angle', lambda a, b: G.angle(a, b)), ('parallel', lambda a, b: G.parallel(a, b)), ('orthogonal', lambda a, b: G.orthogonal(a, b))]
    q.append(('measures', lambda a, b: [getattr(o, m)() for o in (a, b) for m in ('length', 'area', 'volume') if callable(getattr(o, m, None))]))
    return q


def res_eq(r1, r2):
    """two query results denote the same answer"""
    if type(r1) is not type(r2):
        if isinstance(r1, (int, float, F, SymNum)) and isinstance(r2, (int, float, F, SymNum)):
            return near(r1, r2, F(1, 10 ** 9))
        return False
    if r1 is None:
        return True
    if isinstance(r1, (bool, str)):
        return r1 == r2
    if isinstance(r1, (int, float, F, SymNum)):
        return near(r1, r2, F(1, 10 ** 9))
    if isinstance(r1, shims.SymAcos):
        return And(r1.kind == r2.kind, near(r1.x, r2.x, F(1, 10 ** 9)))
    if isinstance(r1, shims.SymHash):
        return bool(r1 == r2)
    if isinstance(r1, (list, tuple)):
        return len(r1) == len(r2) and And(*[res_eq(x, y) for x, y in zip(r1, r2)])
    if isinstance(r1, GEOCLS):
        return same(r1, r2, deep=False)
    return True


def fam_pure(ctx, ka, kb, variant):
    A, Bq = c04.operands(ctx, ka, kb, variant)
    if ka in c04.FLAT and kb in c04.FLAT:
        R.band_pair(ctx, A, Bq)
    else:
        from refgeo import hrep as H
        H.VertexOracle(A, Bq).band(ctx)
    a, b = mk(ctx, A), mk(ctx, Bq)
    sa0, sb0 = snap(a), snap(b)
    qs = queries(ka, kb)
    first = {}
    for name, fn in qs:
        st, r = call(lambda: fn(a, b))
        first[name] = (st, r)
        ctx.require(And(snap_eq(sa0, snap(a)), snap_eq(sb0, snap(b))), 'C20:%s(%s,%s) changes an attribute of an operand' % (name, ka, kb))
    # order independence: every query again, after all the others ran, and on fresh copies
    a2, b2 = mk(ctx, A), mk(ctx, Bq)
    for name, fn in reversed(qs):
        if name == 'repr':
            continue
        st, r = call(lambda: fn(a, b))
        st2, r2 = call(lambda: fn(a2, b2))
        s0, r0 = first[name]
        ok = (st == s0 == st2) and (st == 'raise' or And(res_eq(r, r0), res_eq(r2, r0)))
        ctx.require(ok, 'C20:%s(%s,%s) answers differently depending on earlier queries' % (name, ka, kb))
    ctx.outcome('ok')


def fam_pure_unit(ctx, ka, axis, sign):
    """operands whose direction / normal is an exact unit vector along a (negative) coordinate axis -- the one case in which the
    library's normalisation and sign canonicalisation have nothing to do: a = 1-D object or plane with that direction, b = a plane
    crossing it"""
    u = tuple(ctx.param('u%d' % i) for i in range(3))
    d = tuple(F(sign) if i == axis else F(0) for i in range(3))
    w = tuple(F(1) if i == (axis + 1) % 3 else F(0) for i in range(3))
    A0 = R.vadd((F(1, 2), F(-1, 4), F(1)), u)
    if ka == 'Plane':
        A = R.RPlane(A0, d)
        Bq = R.RLine((F(3, 4), F(1, 2), F(-1, 4)), R.vadd(d, w))
    else:
        A = c02._one(ka, A0, d) if ka != 'Segment' else R.RSegment(A0, R.vadd(A0, d))
        Bq = R.RPlane((F(3, 4), F(1, 2), F(-1, 4)), R.vadd(d, w))
    R.band_pair(ctx, A, Bq)
    a, b = mk(ctx, A), mk(ctx, Bq)
    sa0, sb0 = snap(a), snap(b)
    qs = queries(ka, Bq.kind)
    first = {}
    for name, fn in qs:
        st, r = call(lambda: fn(a, b))
        first[name] = (st, r)
        ctx.require(And(snap_eq(sa0, snap(a)), snap_eq(sb0, snap(b))), 'C20:%s(%s,%s) changes an attribute of an operand (unit axis direction)' % (name, ka, Bq.kind))
    a2, b2 = mk(ctx, A), mk(ctx, Bq)
    for name, fn in reversed(qs):
        if name == 'repr':
            continue
        st, r = call(lambda: fn(a, b))
        st2, r2 = call(lambda: fn(a2, b2))
        s0, r0 = first[name]
        ok = (st == s0 == st2) and (st == 'raise' or And(res_eq(r, r0), res_eq(r2, r0)))
        ctx.require(ok, 'C20:%s(%s,%s) answers differently depending on earlier queries (unit axis direction)' % (name, ka, Bq.kind))
    ctx.outcome('ok')


def fam_own(ctx, kind, mut):
    """composites are unaffected by later mutation of the arguments they were built from; deep copies are independent"""
    e1, e2, e3 = B.frame_vectors('oblique')
    u = tuple(ctx.param('u%d' % i) for i in range(3))
    v = tuple(ctx.param('v%d' % i) for i in range(3))
    A = R.vadd((F(1, 2), F(-1, 4), F(1)), u)
    pts = [pt(ctx, A), pt(ctx, R.vadd(A, e1)), pt(ctx, R.affine(A, (1, e1), (1, e2))), pt(ctx, R.vadd(A, e2))]
    vecs = [vec(ctx, e1), vec(ctx, e2), vec(ctx, e3)]
    args, polys = pts + vecs, []
    if kind == 'Segment':
        o = Segment(pts[0], pts[1])
    elif kind == 'Segment(P,V)':
        o = Segment(pts[0], vecs[0])
    elif kind == 'HalfLine':
        o = HalfLine(pts[0], pts[1])
    elif kind == 'HalfLine(P,V)':
        o = HalfLine(pts[0], vecs[0])
    elif kind == 'Line(P,P)':
        o = Line(pts[0], pts[1])
    elif kind == 'ConvexPolygon':
        o = ConvexPolygon(tuple(pts))
    elif kind == 'ConvexPolygon(list)':
        lst = list(pts)
        o = ConvexPolygon(lst)
        args = args + [lst]
    elif kind == 'Parallelogram':
        o = G.Parallelogram(pts[0], vecs[0], vecs[1])
    elif kind == 'Parallelepiped':
        o = G.Parallelepiped(pts[0], vecs[0], vecs[1], vecs[2])
    elif kind == 'ConvexPolyhedron':
        K = B.body('tetra', 'axis')
        shared = {p: pt(ctx, R.vadd(p, u)) for p in K.verts}
        polys = [ConvexPolygon(tuple(shared[p] for p in f)) for f in K.faces]
        o = ConvexPolyhedron(tuple(polys))
        args = list(shared.values()) + polys
    else:
        raise ValueError(kind)
    s0 = snap(o)
    c = copy.deepcopy(o)
    st, eq = call(lambda: c == o)
    ctx.require(st == 'ok' and bool(eq), 'C20:deepcopy(%s) does not compare equal to the original' % kind)
    ctx.require(snap_eq(s0, snap(c)), 'C20:deepcopy(%s) differs from the original' % kind)
    mv = vec(ctx, v)
    for x in args:
        if mut == 'move':
            if isinstance(x, (Point, ConvexPolygon)):
                x.move(mv)
            elif isinstance(x, Vector):
                x[0] = x[0] + mv[0]
                x[2] = x[2] - mv[1]
            elif isinstance(x, list):
                x.append(pt(ctx, (F(9), F(9), F(9))))
                x[0] = pt(ctx, (F(7), F(7), F(7)))
        else:
            if isinstance(x, Point):
                x.x = x.x + mv[0]
                x[1] = x[1] + mv[1]
                x.z = 5
            elif isinstance(x, Vector):
                x[1] = x[1] * 2 + mv[2]
            elif isinstance(x, ConvexPolygon):
                x.points = tuple(reversed(x.points))
                x.center_point.x = 99
    ctx.require(snap_eq(s0, snap(o)), 'C20:%s changes when the objects it was constructed from are mutated afterwards' % kind)
    # the copy is independent of the original
    st, _ = call(lambda: c.move(mv))
    ctx.require(st == 'ok' and snap_eq(s0, snap(o)), 'C20:mutating a deep copy of %s changes the original' % kind)
    if isinstance(o, ConvexPolygon):
        # an object derived by unary minus owns its data too: it is built from the polygon's points and must not follow them
        st, neg = call(lambda: -o)
        ctx.require(st == 'ok' and isinstance(neg, ConvexPolygon), 'C20:-polygon fails')
        sn = snap(neg)
        st, _ = call(lambda: o.move(mv))
        ctx.require(st == 'ok' and snap_eq(sn, snap(neg)), 'C20:-polygon changes when the polygon it was derived from is moved afterwards')
        s1 = snap(o)
        st, _ = call(lambda: neg.move(mv))
        ctx.require(st == 'ok' and snap_eq(s1, snap(o)), 'C20:moving -polygon changes the polygon it was derived from')
    ctx.outcome('ok')


def families(tier, seed):
    fams = []
    K = c04.KINDS
    for ka in K:
        for kb in K:
            if tier == 'quick' and (K.index(ka) * 7 + K.index(kb)) % 2 == 1 and not (ka == kb):
                continue
            heavy = ka == kb == 'ConvexPolyhedron'
            v = (K.index(ka) + K.index(kb)) % 3
            if ka == kb == 'Plane':
                v = 0
            fams.append(Family('pure/%s-%s/v%d' % (ka, kb, v), fam_pure, (ka, kb, v), must_reach=('ok',), budget_s=300 if heavy else None))
    for ki, ka in enumerate(('Line', 'HalfLine', 'Segment', 'Plane')):
        for axis, sign in (((ki % 3, -1), ((ki + 1) % 3, 1)) if tier == 'quick' else [(ax, sg) for ax in range(3) for sg in (-1, 1)]):
            fams.append(Family('pure-unit/%s/axis%d%s' % (ka, axis, '-' if sign < 0 else '+'), fam_pure_unit, (ka, axis, sign), must_reach=('ok',)))
    for kind in ('Segment', 'Segment(P,V)', 'HalfLine', 'HalfLine(P,V)', 'Line(P,P)', 'ConvexPolygon', 'ConvexPolygon(list)', 'Parallelogram',
                 'Parallelepiped', 'ConvexPolyhedron'):
        for mut in ('move', 'assign'):
            fams.append(Family('own/%s/%s' % (kind, mut), fam_own, (kind, mut), must_reach=('ok',)))
    return fams


def _twin_segment_aliases():
    def init(self, a, b):
        self.line = Line(a, b)
        self.start_point, self.end_point = a, b
    Segment.__init__ = init


TWINS = {'Segment keeps references to its argument points': (r'^own/Segment/move$', _twin_segment_aliases)}


META = dict(
    title='queries are pure; composites own their data',
    level_text=('Bounded symbolic model checking of the real query code on operand pairs from the C01-C03 templates (1-2 real parameters): a full recursive '
                'attribute snapshot (symbolic terms) of both operands is taken before and after intersection, in, distance, angle, parallel, orthogonal, ==, hash, '
                'repr, length, area, volume, and z3 proves on every path that the snapshots are identical; every query is repeated after all others and on fresh '
                'copies and must give the same answer.  Ownership: Segment, HalfLine, Line(Point,Point), ConvexPolygon, Parallelogram, Parallelepiped and '
                'ConvexPolyhedron are built from shared Points/Vectors/polygons at a symbolic pose, the arguments are then mutated by a symbolic move / coordinate '
                'assignment, and the composite snapshot must be unchanged; deep copies are equal and independent.'),
    level_note='aliasing is structural: the solver contribution is "on every path, for every parameter value"; exact-real semantics',
    technique='symbolic execution of real code over exact reals (z3), all paths; relational snapshots before/after',
    bounds=dict(parameters='1-2 reals (queries), 6 reals (ownership)', pairs='quick: 28 of the 49 ordered pairs (all 49 thorough)'),
    outside_claim=['Plane(p, n) keeping a reference to p (not in the property list)', 'interleavings longer than two rounds of queries'],
    assumptions=['admissibility bands of C01-C03'],
)

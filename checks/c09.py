"""C09 -- polygon / polyhedron construction is order-independent and canonical."""
import random, itertools
from .common import *
from .c07 import set_match, pnear, seg_eq, V3
from symgeo.run import Family

PROP = 'C09'
BUDGET = {'quick': 120, 'thorough': 900}


def ccw_ok(poly):
    """formula: the vertex cycle of a library polygon turns counter-clockwise about the polygon's own normal at every vertex"""
    pts = [V3(p) for p in poly.points]
    n = V3(poly.plane.n)
    k = len(pts)
    cs = []
    # every other vertex lies strictly to the left of every directed edge: a simple convex cycle (left turns at every corner alone
    # would also accept star orders that wind around the centre twice)
    for i in range(k):
        a, b = pts[i], pts[(i + 1) % k]
        for j in range(k):
            if j in (i, (i + 1) % k):
                continue
            cs.append(R.dot(R.cross(R.vsub(b, a), R.vsub(pts[j], a)), n) > 0)
    return And(*cs)


def fam_polygon(ctx, shape, fr_name, perm, dups):
    P = B.polygon(shape, fr_name)
    t = ctx.param('t', F(-1, 4), 1)
    u = ctx.param('u')
    out = R.vsub(P.verts[0], P.centre)
    shift = R.vscale(u, P.n)           # and the whole polygon slides along its normal (pose parameter)
    vs = [R.vadd(R.affine(P.verts[0], (t, out)), shift)] + [R.vadd(v, shift) for v in P.verts[1:]]
    order = [vs[i] for i in perm]
    for pos, i in dups:                 # repeated vertices: (position in the list, vertex index); position None = append
        order.insert(len(order) if pos is None else pos, vs[i])
    st, poly = call(lambda: ConvexPolygon(tuple(pt(ctx, v) for v in order)))
    if st == 'raise':
        ctx.outcome('raise')
        ctx.fail('C09:ConvexPolygon raises %s on the vertices of a convex polygon' % exc_sig(poly), repr(poly))
    ref = [pt(ctx, v) for v in vs]
    ctx.require(len(poly.points) == len(vs) and set_match(poly.points, ref, pnear), 'C09:ConvexPolygon does not have exactly the distinct input vertices')
    ctx.require(ccw_ok(poly), 'C09:ConvexPolygon vertices are not a counter-clockwise cycle about its normal')
    st, neg = call(lambda: -poly)
    if st == 'raise':
        ctx.fail('C09:-polygon raises %s' % exc_sig(neg), repr(neg))
    ctx.require(len(neg.points) == len(vs) and set_match(neg.points, ref, pnear), 'C09:-polygon does not denote the same vertex set')
    ctx.require(R.dot(V3(neg.plane.n), V3(poly.plane.n)) < 0, 'C09:-polygon does not reverse the normal')
    ctx.require(ccw_ok(neg), 'C09:-polygon is not counter-clockwise about its own (reversed) normal')
    st, nn = call(lambda: -neg)
    ctx.require(st == 'ok' and set_match(nn.points, ref, pnear) and R.dot(V3(nn.plane.n), V3(poly.plane.n)) > 0 and ccw_ok(nn),
                'C09:-(-polygon) does not match the polygon including its normal')
    c = tuple(sum(v[i] for v in vs) / len(vs) for i in range(3))
    ctx.require(pnear(poly.center_point, c), 'C09:polygon centre is not the vertex centroid')
    ctx.outcome('ok')


def fam_polyhedron(ctx, shape, fr_name, order_seed, moving):
    rng = random.Random(order_seed)
    K = B.body(shape, fr_name)
    u = tuple(ctx.param('u%d' % i) for i in range(3))
    mapv = lambda v: R.vadd(v, u)
    if moving:
        t = ctx.param('t', F(-1, 4), 1)
        tri_v = [v for v in K.verts if all(len(f) == 3 for f in K.faces if v in f)]
        mv = tri_v[0]
        out = R.vsub(mv, K.centre)
        mapv = lambda v: R.vadd(R.affine(v, (t, out)) if v == mv else v, u)
    faces = [[mapv(v) for v in f] for f in K.faces]
    order = list(range(len(faces)))
    rng.shuffle(order)
    flip = set(rng.sample(order, len(order) // 2))
    rot = {i: rng.randrange(len(faces[i])) for i in order}

    def cyc(i):
        f = faces[i][rot[i]:] + faces[i][:rot[i]]
        return list(reversed(f)) if i in flip else f
    st, body = call(lambda: ConvexPolyhedron(tuple(ConvexPolygon(tuple(pt(ctx, v) for v in cyc(i))) for i in order)))
    if st == 'raise':
        ctx.outcome('raise')
        ctx.fail('C09:ConvexPolyhedron raises %s on the faces of a closed convex body' % exc_sig(body), repr(body))
    verts = [mapv(v) for v in K.verts]
    c = tuple(sum(v[i] for v in verts) / len(verts) for i in range(3))
    for f in body.convex_polygons:
        n = V3(f.plane.n)
        ctx.require(R.dot(n, R.vsub(c, V3(f.points[0]))) < 0, 'C09:a face normal of the polyhedron does not point away from the interior')
        ctx.require(ccw_ok(f), 'C09:a face of the polyhedron is not counter-clockwise about its (outward) normal')
    ref_pts = [pt(ctx, v) for v in verts]
    ctx.require(len(body.point_set) == len(verts) and set_match(body.point_set, ref_pts, pnear), 'C09:polyhedron vertex set is not the vertex set of the body')
    ref_edges = [Segment(pt(ctx, mapv(a)), pt(ctx, mapv(b))) for a, b in K.edges]
    ctx.require(len(body.segment_set) == len(ref_edges) and set_match(body.segment_set, ref_edges, seg_eq), 'C09:polyhedron edge set is not the edge set of the body')
    ctx.require(len(body.convex_polygons) == len(faces) and
                set_match(body.convex_polygons, [[pt(ctx, v) for v in f] for f in faces], lambda x, y: set_match(x.points if hasattr(x, 'points') else x, y.points if hasattr(y, 'points') else y, pnear)),
                'C09:polyhedron face set is not the face set of the body')
    ctx.require(len(body.point_set) - len(body.segment_set) + len(body.convex_polygons) == 2, 'C09:V - E + F != 2')
    ctx.require(pnear(body.center_point, c), 'C09:polyhedron centre is not the vertex centroid')
    for n0, f0 in zip(K.normals, faces):
        ctx.require(R.dot(n0, R.vsub(V3(body.center_point), f0[0])) < 0, 'C09:polyhedron centre is not strictly inside the body')
    ctx.outcome('ok')


def fam_shared_face(ctx, shape, fr_name, first):
    """history: two bodies on both sides of a shared face are constructed one after the other in the same process (the
    shared polygon is needed with opposite orientations); both must come out canonical whatever the order"""
    P = B.polygon(shape, fr_name)
    u = tuple(ctx.param('u%d' % i) for i in range(3))
    h1 = ctx.param('h1', F(1, 2), 3)
    h2 = ctx.param('h2', F(1, 2), 3)
    base = [R.vadd(v, u) for v in P.verts]
    c0 = R.vadd(P.centre, u)
    apexes = {'up': R.affine(c0, (h1, P.n)), 'down': R.affine(c0, (-h2, P.n))}
    k = len(base)

    def build(which, flip_base):
        ap = apexes[which]
        faces = [list(reversed(base)) if flip_base else list(base)]
        for i in range(k):
            faces.append([base[i], base[(i + 1) % k], ap])
        return ConvexPolyhedron(tuple(ConvexPolygon(tuple(pt(ctx, x) for x in f)) for f in faces)), faces, ap
    order = ['up', 'down'] if first == 'up' else ['down', 'up']
    for which in order:
        for flip in (False, True):
            st, res = call(lambda: build(which, flip))
            if st == 'raise':
                ctx.outcome('raise')
                ctx.fail('C09:ConvexPolyhedron raises %s on the faces of a closed convex body (built after another body sharing a face)' % exc_sig(res), repr(res))
            body, faces, ap = res
            verts = base + [ap]
            c = tuple(sum(v[i] for v in verts) / len(verts) for i in range(3))
            for f in body.convex_polygons:
                ctx.require(R.dot(V3(f.plane.n), R.vsub(c, V3(f.points[0]))) < 0, 'C09:a face normal of the polyhedron does not point away from the interior')
                ctx.require(ccw_ok(f), 'C09:a face of the polyhedron is not counter-clockwise about its (outward) normal')
            ctx.require(len(body.point_set) == k + 1 and len(body.segment_set) == 2 * k and len(body.convex_polygons) == k + 1, 'C09:V - E + F != 2')
    ctx.outcome('ok')


def families(tier, seed):
    rng = random.Random(seed)
    fams = []
    shapes = [('tri', 'axis'), ('quad', 'oblique'), ('penta', 'axis'), ('hexa', 'pyth3'), ('para12', 'axis')] if tier == 'quick' else \
        [(s, f) for s in ('tri', 'quad', 'penta', 'hexa', 'para12') for f in ('axis', 'oblique', 'pyth3')]
    for sh, fr in shapes:
        n = len(B.UNIT_POLYS[sh])
        if n <= 5 and tier == 'thorough':
            perms = [list(p) for p in itertools.permutations(range(n))]
        elif n <= 4:
            perms = [list(p) for p in itertools.permutations(range(n))]
        else:
            perms = [list(range(n)), list(reversed(range(n)))] + [rng.sample(range(n), n) for _ in range(4 if tier == 'quick' else 20)]
        # star orders (every corner turns the same way although the list winds around the centre twice): only possible from 5 vertices on
        stars = {5: [[0, 2, 4, 1, 3], [0, 3, 1, 4, 2]], 6: [[0, 2, 4, 1, 3, 5], [0, 1, 3, 5, 2, 4], [0, 3, 1, 5, 4, 2]]}.get(n, [])
        perms += [q for q in stars if q not in perms]
        for pi, perm in enumerate(perms):
            # repeats at the tail (closed ring), at the head (a, a, b, ...) and inside the first entries (a, b, b, b, c, ...)
            dmode = ['', '+dup', '', '+duphead', '', '+dupmid'][pi % 6]
            dups = {'': [], '+dup': [(None, perm[0]), (None, perm[-1]), (None, perm[0])], '+duphead': [(1, perm[0])],
                    '+dupmid': [(2, perm[1]), (2, perm[1]), (2, perm[0])]}[dmode]
            fams.append(Family('polygon/%s@%s/order%s%s' % (sh, fr, ''.join(map(str, perm)), dmode), fam_polygon, (sh, fr, perm, dups),
                               must_reach=('ok',)))
    for sh, fr in ([('tri', 'axis'), ('quad', 'axis')] if tier == 'quick' else [(s, f) for s in ('tri', 'quad', 'penta') for f in ('axis', 'oblique', 'pyth3')]):
        for first in ('up', 'down'):
            fams.append(Family('shared-face/%s@%s/%s-first' % (sh, fr, first), fam_shared_face, (sh, fr, first), must_reach=('ok',),
                               budget_s=240 if tier == 'quick' else 900))
    bodies = [('tetra', 'axis', True), ('cube', 'oblique', False), ('prism', 'axis', False), ('pyramid', 'axis', True), ('octa', 'pyth3', False)]
    if tier == 'thorough':
        bodies = [(s, f, s in ('tetra', 'pyramid', 'octa')) for s in B.UNIT_SHAPES for f in ('axis', 'oblique', 'pyth3')]
    for sh, fr, moving in bodies:
        for os_ in range(3 if tier == 'quick' else 10):
            fams.append(Family('polyhedron/%s@%s/order%d%s' % (sh, fr, os_, '/moving' if moving else ''), fam_polyhedron, (sh, fr, seed * 100 + os_, moving),
                               must_reach=('ok',), budget_s=240 if tier == 'quick' else 900))
    return fams


def _twin_neg_keeps_normal():
    ConvexPolygon.__neg__ = lambda self: ConvexPolygon(self.points)


TWINS = {'-polygon keeps the normal': (r'^polygon/tri@axis/order012$', _twin_neg_keeps_normal)}


META = dict(
    title='construction is order-independent and canonical',
    level_text=('Bounded symbolic model checking of the real ConvexPolygon / ConvexPolyhedron constructors and negation: convex vertex lists in all (<= 4 '
                'vertices; thorough <= 5) or sampled permutations and with repeats, one vertex moving along a line (1 real) and the polygon sliding along its normal '
                '(1 real); closed bodies from faces in shuffled order, rotated cycles and flipped orientations at a symbolic translation (3 reals), with one vertex '
                'moving for the simplicial ones.  z3 proves on every path: vertex set = input set, every turn of the stored cycle is counter-clockwise about the '
                'stored normal, -p and -(-p), outward face normals, exact vertex / edge / face sets, Euler, centroid strictly inside.'),
    level_note='exact-real semantics; permutations and orientation flags are enumerated (concrete selectors), shape parameters are symbolic',
    technique='symbolic execution of real code over exact reals (z3 QF_NRA), all paths; direct assertions on the constructed objects',
    bounds=dict(parameters='2 reals (polygons), 3-4 reals (polyhedra)', polygons='3-6 vertices', polyhedra='tetra, cube, prism, pyramid, octa (+wedge thorough)'),
    outside_claim=['more than one moving vertex', 'polygons with 7-8 vertices, hulls with more than 8 faces', 'results of intersections fed back (covered indirectly by C12)'],
    assumptions=['moving vertex stays in the strictly convex range'],
)

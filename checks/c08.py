"""C08 -- equality is representation-independent and consistent with hashing."""
import itertools, random
from .common import *
from .c07 import same, V3
from symgeo import shims
from symgeo.run import Family

PROP = 'C08'
BUDGET = {'quick': 120, 'thorough': 900}


def H_(o):
    """the library's own __hash__ value as a structured SymHash (symbolic mode) or the real int (concrete mode)"""
    return type(o).__hash__(o)


def hash_eq(a, b):
    ha, hb = H_(a), H_(b)
    if isinstance(ha, shims.SymHash) or isinstance(hb, shims.SymHash):
        return bool(ha == hb)
    return ha == hb


def expect_equal(ctx, a, b, what):
    for x, y, nm in ((a, b, 'a == b'), (b, a, 'b == a')):
        st, r = call(lambda: x == y)
        if st == 'raise':
            ctx.fail('C08:%s: == raises %s' % (what, exc_sig(r)), repr(r))
        ctx.require(bool(r), 'C08:%s: equal sets compare unequal (%s)' % (what, nm))
        st, r = call(lambda: x != y)
        ctx.require(st == 'ok' and not bool(r), 'C08:%s: != is not the negation of ==' % what)
    st, r = call(lambda: hash_eq(a, b))
    if st == 'raise':
        ctx.fail('C08:%s: hash raises %s' % (what, exc_sig(r)), repr(r))
    ctx.require(r, 'C08:%s: a == b but hash(a) != hash(b)' % what)
    st, n = call(lambda: len({a, b}))
    ctx.require(st == 'ok' and n == 1, 'C08:%s: a set does not deduplicate equal objects' % what)


def expect_unequal(ctx, a, b, what):
    for x, y in ((a, b), (b, a)):
        st, r = call(lambda: x == y)
        if st == 'raise':
            ctx.fail('C08:%s: == raises %s' % (what, exc_sig(r)), repr(r))
        ctx.require(not bool(r), 'C08:%s: different sets compare equal' % what)


def basics(ctx, a, kind, foreign=True):
    st, r = call(lambda: a == a)
    ctx.require(st == 'ok' and bool(r), 'C08:%s: == is not reflexive' % kind)
    if foreign:
        for other in (5, 'x', None, (1, 2, 3)):
            st, r = call(lambda: a == other)
            if st == 'raise':
                ctx.fail('C08:%s == foreign object raises %s' % (kind, exc_sig(r)), repr(r))
            ctx.require(r is False or (isinstance(r, bool) and not r), 'C08:%s == foreign object is not False' % kind)


def _frame(fr_name):
    if fr_name.startswith('dir:'):
        # an explicit lattice direction (zero components and sign patterns matter for canonical-sign hashing)
        d = tuple(F(x) for x in fr_name[4:].split(','))
        w = next(c for c in (R.cross(d, (F(0), F(0), F(1))), R.cross(d, (F(1), F(0), F(0)))) if any(c))
        return (F(1, 2), F(-1, 4), F(1)), d, w, R.cross(d, w)
    e1, e2, e3 = B.frame_vectors(fr_name)
    return (F(1, 2), F(-1, 4), F(1)), e1, e2, e3


def fam_line(ctx, fr_name, miss):
    A, d, w, _ = _frame(fr_name)
    s = F(0) if fr_name != 'axis' else ctx.param('s')
    t, r, k = ctx.param('t'), ctx.param('r'), ctx.param('k')
    ctx.assume(Or(s - t >= F(1, 20), t - s >= F(1, 20)))
    ctx.assume(Or(k >= F(1, 20), k <= -F(1, 20)))
    L1 = Line(pt(ctx, R.affine(A, (s, d))), pt(ctx, R.affine(A, (t, d))))
    if not miss:
        L2 = Line(pt(ctx, R.affine(A, (r, d))), vec(ctx, R.vscale(k, d)))
        expect_equal(ctx, L1, L2, 'Line from two points vs point+scaled direction')
        basics(ctx, L1, 'Line')
        ctx.outcome('eq')
    else:
        dl = ctx.param('dl')
        ctx.assume(Or(dl >= F(1, 100), dl <= -F(1, 100)))
        L3 = Line(pt(ctx, R.affine(A, (r, d), (dl, w))), vec(ctx, R.vscale(k, d)))
        expect_unequal(ctx, L1, L3, 'Line displaced sideways')
        ctx.outcome('ne')


def fam_plane(ctx, fr_name, miss):
    A, e1, e2, _ = _frame(fr_name)
    n = R.cross(e1, e2)
    s, t, k = ctx.param('s'), ctx.param('t'), ctx.param('k')
    ctx.assume(Or(k >= F(1, 20), k <= -F(1, 20)))
    P1 = Plane(pt(ctx, R.affine(A, (s, e1), (t, e2))), vec(ctx, R.vscale(k, n)))
    if not miss:
        P2 = Plane(pt(ctx, A), pt(ctx, R.vadd(A, e1)), pt(ctx, R.vadd(A, e2)))
        P3 = Plane(pt(ctx, A), vec(ctx, e2), vec(ctx, e1))
        expect_equal(ctx, P1, P2, 'Plane point+scaled/negated normal vs three points')
        expect_equal(ctx, P1, P3, 'Plane point+normal vs point+two vectors')
        basics(ctx, P1, 'Plane')
        ctx.outcome('eq')
    else:
        dl = ctx.param('dl')
        ctx.assume(Or(dl >= F(1, 100), dl <= -F(1, 100)))
        P4 = Plane(pt(ctx, R.affine(A, (dl, n))), vec(ctx, n))
        expect_unequal(ctx, P1, P4, 'Plane displaced along its normal')
        ctx.outcome('ne')


def fam_seg_half(ctx, fr_name, miss):
    A0, d, w, _ = _frame(fr_name)
    u = tuple(ctx.param('u%d' % i) for i in range(3))
    k = ctx.param('k', F(1, 20), 3)
    A = R.vadd(A0, u)
    Bp = R.vadd(A, R.vscale(2, d))
    S1, S2 = Segment(pt(ctx, A), pt(ctx, Bp)), Segment(pt(ctx, Bp), pt(ctx, A))
    S3 = Segment(pt(ctx, A), vec(ctx, R.vscale(2, d)))
    H1, H2 = HalfLine(pt(ctx, A), vec(ctx, d)), HalfLine(pt(ctx, A), vec(ctx, R.vscale(k, d)))
    H3 = HalfLine(pt(ctx, A), pt(ctx, R.affine(A, (k, d))))
    if not miss:
        expect_equal(ctx, S1, S2, 'Segment with swapped endpoints')
        expect_equal(ctx, S1, S3, 'Segment(Point, Point) vs Segment(Point, Vector)')
        expect_equal(ctx, H1, H2, 'HalfLine with rescaled direction')
        expect_equal(ctx, H1, H3, 'HalfLine(Point, Vector) vs HalfLine(Point, Point)')
        P1, P2 = pt(ctx, A), Point([ctx.lib(c) for c in A])
        expect_equal(ctx, P1, P2, 'Point from coordinates vs from list')
        V1, V2 = vec(ctx, A), Vector(Point(0, 0, 0), pt(ctx, A))
        expect_equal(ctx, V1, V2, 'Vector from coordinates vs from two points')
        basics(ctx, S1, 'Segment', foreign=False)
        basics(ctx, H1, 'HalfLine', foreign=False)
        basics(ctx, P1, 'Point')
        basics(ctx, V1, 'Vector', foreign=False)
        ctx.outcome('eq')
    else:
        dl = ctx.param('dl', -1, 1)
        ctx.assume(Or(dl >= F(1, 100), dl <= -F(1, 100)))
        S4 = Segment(pt(ctx, A), pt(ctx, R.affine(Bp, (dl, w))))
        S5 = Segment(pt(ctx, A), pt(ctx, R.affine(Bp, (dl, d))))
        expect_unequal(ctx, S1, S4, 'Segment with one endpoint displaced sideways')
        expect_unequal(ctx, S1, S5, 'Segment with one endpoint displaced lengthwise')
        H4 = HalfLine(pt(ctx, A), vec(ctx, R.affine(d, (dl, w))))
        H5 = HalfLine(pt(ctx, R.affine(A, (dl, d))), vec(ctx, d))
        H6 = HalfLine(pt(ctx, A), vec(ctx, R.vscale(-1, d)))
        expect_unequal(ctx, H1, H4, 'HalfLine with tilted direction')
        expect_unequal(ctx, H1, H5, 'HalfLine with displaced origin')
        expect_unequal(ctx, H1, H6, 'HalfLine with opposite direction')
        expect_unequal(ctx, pt(ctx, A), pt(ctx, R.affine(A, (dl, w))), 'Point displaced')
        expect_unequal(ctx, vec(ctx, A), vec(ctx, R.affine(A, (dl, w))), 'Vector displaced')
        ctx.outcome('ne')


def _perms(n, tier, rng):
    base = list(range(n))
    rots = [base[i:] + base[:i] for i in range(n)]
    refl = [list(reversed(r)) for r in rots]
    allp = rots + refl
    if tier == 'thorough' and n <= 5:
        allp = [list(p) for p in itertools.permutations(base)]
    else:
        allp += [rng.sample(base, n) for _ in range(4)]
    return allp


def fam_polygon(ctx, shape, fr_name, tier, seed):
    rng = random.Random(seed)
    P = B.polygon(shape, fr_name)
    u = tuple(ctx.param('u%d' % i) for i in range(3))
    vs = [R.vadd(v, u) for v in P.verts]
    ref = ConvexPolygon(tuple(pt(ctx, v) for v in vs))
    for perm in _perms(len(vs), tier, rng):
        other = ConvexPolygon(tuple(pt(ctx, vs[i]) for i in perm))
        expect_equal(ctx, ref, other, 'ConvexPolygon from another vertex order')
    dup = ConvexPolygon(tuple(pt(ctx, v) for v in vs + vs[:2]))
    expect_equal(ctx, ref, dup, 'ConvexPolygon with repeated vertices')
    expect_equal(ctx, ref, -ref, 'ConvexPolygon vs its negation (same set)')
    basics(ctx, ref, 'ConvexPolygon')
    # near miss: one vertex moved outward in the plane by >= 1e-3 (still convex)
    c = P.centre
    out = R.vsub(P.verts[0], c)
    dl = ctx.param('dl', F(1, 100), 1)
    vs2 = [R.affine(vs[0], (dl, out))] + vs[1:]
    other = ConvexPolygon(tuple(pt(ctx, v) for v in vs2))
    expect_unequal(ctx, ref, other, 'ConvexPolygon with one vertex changed')
    ctx.outcome('ok')


def fam_polygon_m1m2(ctx, axis):
    """two triangles that differ only in one vertex coordinate, -1 in one and -2 in the other (the other vertices are shared and carry a
    solver parameter).  The exact-real run uses the perfect-hash model and must say "unequal"; CPython has hash(-1) == hash(-2) (ints and
    floats, hence tuples of them), which the float replay of the path witnesses sees: polygon == is a hash comparison."""
    e = [tuple(F(1) if i == j else F(0) for i in range(3)) for j in range(3)]
    a, b, c = e[axis], e[(axis + 1) % 3], e[(axis + 2) % 3]
    h = ctx.param('h', -3, 3)
    ctx.assume(Or(And(h >= F(1, 4), h <= 1), h <= -F(1, 4)))      # (both triangles non-degenerate: collinear at h = 2 and h = 3/2)
    B_ = R.affine(a, (h, b))                 # a + h b: both triangles lie in the coordinate plane spanned by a and b
    C_ = b
    T1 = ConvexPolygon((pt(ctx, R.vscale(F(-1), a)), pt(ctx, B_), pt(ctx, C_)))
    T2 = ConvexPolygon((pt(ctx, R.vscale(F(-2), a)), pt(ctx, B_), pt(ctx, C_)))
    for x, y in ((T1, T2), (T2, T1)):
        st, r = call(lambda: x == y)
        if st == 'raise':
            ctx.fail('C08:ConvexPolygon == raises %s' % exc_sig(r), repr(r))
        ctx.require(not bool(r), 'C08:triangles differing in one vertex coordinate -1 vs -2 compare equal (polygon == is hash equality and CPython hash(-1) == hash(-2))')
    ctx.outcome('ok')


def fam_polyhedron(ctx, shape, fr_name, tier, seed):
    rng = random.Random(seed)
    K = B.body(shape, fr_name)
    u = tuple(ctx.param('u%d' % i) for i in range(3))
    faces = [[R.vadd(v, u) for v in f] for f in K.faces]

    def build(order, rev=()):
        return ConvexPolyhedron(tuple(ConvexPolygon(tuple(pt(ctx, v) for v in (reversed(faces[i]) if i in rev else faces[i]))) for i in order))
    ref = build(range(len(faces)))
    n = len(faces)
    orders = [list(reversed(range(n))), rng.sample(range(n), n)]
    if tier == 'thorough':
        orders += [rng.sample(range(n), n) for _ in range(4)]
    for o in orders:
        other = build(o, rev=set(rng.sample(range(n), n // 2)))
        expect_equal(ctx, ref, other, 'ConvexPolyhedron from another face order / orientation')
    basics(ctx, ref, 'ConvexPolyhedron')
    ctx.outcome('ok')


def families(tier, seed):
    fams = []
    frames = ['axis', 'oblique'] if tier == 'quick' else ['axis', 'planar', 'oblique', 'pyth3']
    for fr in frames:
        for miss in (False, True):
            tag = 'near-miss' if miss else 'same-set'
            fams.append(Family('line/%s/%s' % (fr, tag), fam_line, (fr, miss), must_reach=('ne' if miss else 'eq',)))
            fams.append(Family('plane/%s/%s' % (fr, tag), fam_plane, (fr, miss), must_reach=('ne' if miss else 'eq',)))
            fams.append(Family('segment-halfline-point-vector/%s/%s' % (fr, tag), fam_seg_half, (fr, miss), must_reach=('ne' if miss else 'eq',)))
    # directions / normals with zero components in every position and both signs of the leading component
    dirs = ['2,0,-1', '-3,0,4', '0,2,-1', '0,-1,2', '1,-2,0', '0,0,-1', '-1,0,0', '0,-2,0']
    for dname in (dirs[:4] if tier == 'quick' else dirs):
        fams.append(Family('line/dir:%s/same-set' % dname, fam_line, ('dir:' + dname, False), must_reach=('eq',)))
        fams.append(Family('plane/dir:%s/same-set' % dname, fam_plane, ('dir:' + dname, False), must_reach=('eq',)))
    for sh, fr in ([('tri', 'axis'), ('quad', 'oblique'), ('penta', 'axis'), ('quad', 'yz45')] if tier == 'quick' else
                   [(s, f) for s in ('tri', 'quad', 'penta', 'hexa') for f in ('axis', 'oblique', 'pyth3', 'yz45')]):
        fams.append(Family('polygon/%s@%s' % (sh, fr), fam_polygon, (sh, fr, tier, seed), must_reach=('ok',)))
    for axis in range(3):
        fams.append(Family('polygon-differ/-1vs-2/axis%d' % axis, fam_polygon_m1m2, (axis,), must_reach=('ok',)))
    for sh, fr in ([('tetra', 'axis'), ('cube', 'axis')] if tier == 'quick' else
                   [(s, f) for s in ('tetra', 'cube', 'prism', 'pyramid') for f in ('axis', 'oblique')]):
        fams.append(Family('polyhedron/%s@%s' % (sh, fr), fam_polyhedron, (sh, fr, tier, seed), must_reach=('ok',), budget_s=300 if tier == 'quick' else 1500))
    return fams


def _twin_ordered_segment_hash():
    def h(self):
        return shims.hash_shim(("Segment", shims.hash_shim(self.start_point), shims.hash_shim(self.end_point)))
    Segment.__hash__ = h


TWINS = {'Segment hash depends on the endpoint order': (r'^segment-halfline-point-vector/axis/same-set$', _twin_ordered_segment_hash)}


META = dict(
    title='equality is representation-independent and consistent with hash',
    level_text=('Bounded symbolic model checking of the real __eq__/__hash__ code: representation families with 3-5 real parameters (a Line from any two of '
                'its points vs point + direction scaled by any k != 0, a Plane from any of its points with normal scaled by +-k vs three points vs two vectors, '
                'swapped Segments, rescaled HalfLines, polygons in all cyclic/reflected (thorough: all) vertex orders and with repeats, polyhedra in permuted / '
                're-oriented face orders, all at a symbolic translation) and near-miss families displaced by >= 1e-2.  z3 proves on every path ==, !=, '
                'hash equality through the structural hash model, set deduplication, reflexivity and False against foreign objects.'),
    level_note=('hash equality is decided in the perfect-hash model (tuple hash collision-free; two rounded reals equal iff |x-y| < 5e-11); '
                'the "different sets => unequal" direction is claimed for Point, Vector, Line, Plane, Segment, HalfLine and for a changed polygon vertex'),
    technique='symbolic execution of real code over exact reals (z3 QF_NRA), all paths; structural hash model',
    bounds=dict(parameters='3-5 reals in [-3,3]', polygons='3-5 (6 thorough) vertices', polyhedra='tetra, cube (+prism, pyramid thorough)'),
    outside_claim=['hash collisions other than the systematic CPython one hash(-1) == hash(-2), which the polygon-differ/-1vs-2 families replay concretely', 'int/float/Fraction coordinate type mixtures (concrete types are not a solver question)', 'IEEE rounding'],
    assumptions=['perfect-hash abstraction', 'near-miss displacements >= 1e-2'],
)

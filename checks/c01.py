"""C01 -- intersection of two flat primitives is exactly their common point set."""
from .common import *
from refgeo import denote as D
from symgeo.run import Family

PROP = 'C01'
BUDGET = {'quick': 120, 'thorough': 900}
ONE = ('Line', 'HalfLine', 'Segment')


def _one(kind, p, d):
    if kind == 'Line':
        return R.RLine(p, d)
    if kind == 'HalfLine':
        return R.RHalfLine(p, d)
    return R.RSegment(p, R.vadd(p, d))


def _frame(fr_name, perm):
    e1, e2, e3 = B.frame_vectors(fr_name, perm)
    A0 = (F(-1, 2), F(3, 4), F(1, 4))
    return A0, e1, e2, e3


def build(ctx, ka, kb, template, fr_name, perm):
    """operands (A concrete in the frame, B depending on 2 real parameters)"""
    A0, e1, e2, e3 = _frame(fr_name, perm)
    t = ctx.param('t')
    u = ctx.param('u')
    n = R.cross(e1, e2)
    if ka in ONE:
        A = _one(ka, A0, R.vscale(2, e1))
    elif ka == 'Plane':
        A = R.RPlane(A0, n)
    else:
        A = R.RPoint(A0)
    if kb == 'Point':
        # point on a 2-parameter slice through A (for a plane: one in-plane and the normal direction)
        w = e2 if ka != 'Plane' else n
        return A, R.RPoint(R.affine(A0, (t, e1), (u, w)))
    if ka == 'Point':
        # B's anchor moves so that A0 sweeps over B's carrier and extent
        w = e2 if kb != 'Plane' else n
        p = R.affine(A0, (t, e1), (u, w))
        if kb == 'Plane':
            return A, R.RPlane(p, n)
        return A, _one(kb, p, R.vscale(2, e1))
    if ka in ONE and kb in ONE:
        if template == 'collinear':          # anchor A0 + t e1, signed extent u (both senses, every interval relation)
            ctx.assume(Or(u >= F(1, 100), u <= -F(1, 100)))
            return A, _one(kb, R.affine(A0, (t, e1)), R.vscale(u, e1))
        if template == 'parallel':           # displaced copy: u = 0 is the collinear case
            return A, _one(kb, R.affine(A0, (t, e1), (u, e2)), R.vscale(F(3, 2), e1))
        if template in ('cross', 'crossneg'):  # B crosses A's carrier at A0 + t*(2 e1) at its own parameter u (crossneg: at an obtuse angle)
            w = R.vadd(e2, R.vscale(F(1, 2) if template == 'cross' else F(-1, 2), e1))
            x = R.affine(A0, (2 * t, e1))
            return A, _one(kb, R.affine(x, (-u, w)), w)
        if template == 'skew':               # crossing configuration lifted by u along the common normal
            w = e2
            x = R.affine(A0, (2 * t, e1))
            return A, _one(kb, R.affine(x, (-F(1, 2), w), (u, e3)), w)
        if template == 'tilt':               # through A0 + t e1 with direction e1 + u e2 (u = 0: same carrier)
            return A, _one(kb, R.affine(A0, (t, e1)), R.affine(e1, (u, e2)))
    if ka in ONE and kb == 'Plane' or ka == 'Plane' and kb in ONE:
        # the plane is the concrete one (through A0 with normal n), the 1-D object moves
        P = R.RPlane(A0, n)
        k1 = ka if ka in ONE else kb
        if template == 'lift':               # parallel to the plane at height u (u = 0: inside)
            L = _one(k1, R.affine(A0, (t, e1), (u, n)), R.vscale(2, e2))
        elif template in ('cross', 'crossneg'):   # pierces the plane at its own parameter u (crossneg: against the stored normal)
            w = R.vadd(n if template == 'cross' else R.vscale(F(-1), n), e1)
            L = _one(k1, R.affine(A0, (t, e2), (-u, w)), w)
        else:                                # 'tilt': starts at height t, direction e1 + u n (u = 0: parallel)
            L = _one(k1, R.affine(A0, (t, n)), R.affine(e1, (u, n)))
        return (L, P) if ka in ONE else (P, L)
    if ka == 'Plane' and kb == 'Plane':
        if template == 'offset':
            return A, R.RPlane(R.affine(A0, (t, n), (u, e1)), R.vscale(F(-3, 2), n))
        if template == 'tiltneg':            # as 'tilt' with the second normal at an obtuse angle to the first (u = 0: opposite)
            return A, R.RPlane(R.affine(A0, (t, n)), R.affine(R.vscale(F(-1), n), (u, e1)))
        return A, R.RPlane(R.affine(A0, (t, n)), R.affine(n, (u, e1)))
    raise ValueError((ka, kb, template))


def fam_pair(ctx, ka, kb, template, fr_name, perm, swap, method):
    A, Bq = build(ctx, ka, kb, template, fr_name, perm)
    if swap:
        A, Bq = Bq, A
    R.band_pair(ctx, A, Bq)
    y, y_in = D.declare_probe(ctx, A, Bq)
    a, b = mk(ctx, A), mk(ctx, Bq)
    if method and A.kind != 'Point':
        st, r = call(lambda: a.intersection(b))
    else:
        st, r = call(lambda: G.intersection(a, b))
    sig = 'C01:intersection(%s,%s)' % (A.kind, Bq.kind)
    if st == 'raise':
        ctx.outcome('raise')
        ctx.fail(sig + ' raises %s' % exc_sig(r), repr(r))
    ctx.outcome(kind_of(r))
    D.check_result(ctx, A, Bq, r, y, y_in, sig)


TEMPLATES = {
    ('1', '1'): ['collinear', 'parallel', 'cross', 'skew', 'tilt', 'crossneg'],
    ('1', 'P'): ['lift', 'cross', 'tilt', 'crossneg'],
    ('P', '1'): ['lift', 'cross', 'tilt', 'crossneg'],
    ('P', 'P'): ['offset', 'tilt', 'tiltneg'],
}
REACH = {'collinear': (), 'cross': ('None', 'Point'), 'crossneg': ('None', 'Point'), 'skew': ('None', 'Point'), 'lift': ('None',), 'offset': ('None', 'Plane')}


def _cls(k):
    return '1' if k in ONE else ('P' if k == 'Plane' else '0')


def families(tier, seed):
    import random
    rng = random.Random(seed)
    kinds = ['Point', 'Line', 'HalfLine', 'Segment', 'Plane']
    # quick: third frame pyth7 (unit vectors with non-dyadic rational components: float dot products of exactly orthogonal / parallel
    # directions do not cancel exactly there) for the templates whose answer hinges on an exact cancellation
    frames = ['axis', 'oblique', 'pyth7'] if tier == 'quick' else ['axis', 'planar', 'oblique', 'pyth3', 'pyth7', 'shear', B.random_frame_name(rng), B.random_frame_name(rng)]
    fams = []
    for fi, fr_name in enumerate(frames):
        perms = [None] if tier == 'quick' else [None, rng.randrange(48)]
        for perm in perms:
            tag = '%s%s' % (fr_name, '' if perm is None else '#%d' % perm)
            for ka in kinds:
                for kb in kinds:
                    key = (_cls(ka), _cls(kb))
                    temps = TEMPLATES.get(key, ['slice'])
                    for tp in temps:
                        if tier == 'quick' and fi > 0 and tp in ('parallel', 'skew', 'crossneg', 'tiltneg') and fr_name != 'pyth7':
                            continue
                        if tier == 'quick' and fr_name == 'pyth7' and tp not in ('collinear', 'parallel', 'lift', 'offset'):
                            continue
                        for swap in ((False,) if tier == 'quick' and fi > 0 else (False, True)):
                            method = (fi % 2 == 1)
                            reach = REACH.get(tp, ())
                            if tp in ('cross', 'crossneg') and all(k in ('Line', 'Plane') for k in (ka, kb)):
                                reach = ('Point',)       # two unbounded carriers that cross always meet
                            fams.append(Family('%s-%s/%s/%s/%s%s' % (ka, kb, tp, tag, 'swap' if swap else 'fwd', '/m' if method else ''),
                                               fam_pair, (ka, kb, tp, fr_name, perm, swap, method), must_reach=reach))
    return fams


def _wrap_public(name, post):
    """twin helper: wrap the public function Geometry3D.<name> (the name the harness calls) with a result post-processor"""
    orig = getattr(G, name)

    def f(a, b):
        return post(a, b, orig(a, b))
    setattr(G, name, f)
    # the .intersection()/.distance()/.angle() methods import the same public function from its module at call time
    import sys
    m = sys.modules.get('Geometry3D.calc.' + name)
    if m is not None and getattr(m, name, None) is orig:
        setattr(m, name, f)


def _twin_touching_segments():
    """mutant: collinear segments that merely touch are reported as disjoint"""
    _wrap_public('intersection', lambda a, b, r: None if (isinstance(r, Point) and isinstance(a, Segment) and isinstance(b, Segment) and a.line == b.line) else r)


TWINS = {'touching collinear segments -> None': (r'^Segment-Segment/collinear/axis/fwd$', _twin_touching_segments)}


META = dict(
    title='flat x flat intersection is the common point set',
    level_text=('Bounded symbolic model checking of the real intersection() code for all 25 ordered pairs of flat types: the second operand '
                'is an affine (for tilt templates: polynomial) function of 2 real parameters over a concrete lattice frame, so that every '
                'relative position on the slice (all interval relations, touching, crossing in/outside, parallel, skew, contained) is a '
                'parameter value found by the solver.  On every path z3 proves result == A n B denotationally: generators of the result '
                'lie in both operands and no probe point y (a further universally quantified variable) of A n B lies outside the result.'),
    level_note=('exact-real semantics of the executed code; IEEE rounding not modelled (every path witness is replayed with floats on the '
                'un-shimmed library); frames are a finite catalogue'),
    technique='symbolic execution of real code over exact reals (z3 QF_NRA), all paths; denotational oracle with a universally quantified probe point',
    bounds=dict(parameters='2 reals in [-3,3] (+1-3 probe reals)', frames='2 (quick) / 6 + random signed permutation (thorough)',
                templates='collinear, parallel, cross, skew, tilt; lift, cross, tilt; offset, tilt; point slices'),
    outside_claim=['simultaneous free motion of both operands', 'poses outside the catalogue', 'IEEE rounding', 'inputs inside the tolerance band'],
    assumptions=['band_pair: parallelism, coplanarity, point-on-carrier, touching parameters are exact or off by >= 1e-3 relative',
                 'hash model (perfect hash, rounding cell = |x-y| < 5e-11) for the sets used inside intersection'],
)

"""C12 -- intersection obeys the algebra of set intersection."""
from .common import *
from . import c04
from .c07 import same
from refgeo import denote as D
from refgeo import hrep as H
from symgeo.run import Family

PROP = 'C12'
BUDGET = {'quick': 90, 'thorough': 1200}
FLAT = c04.FLAT


IN_SUPPORTED = {('Segment', k) for k in ('Line', 'HalfLine', 'Segment', 'Plane', 'ConvexPolygon', 'ConvexPolyhedron')} | \
    {('HalfLine', k) for k in ('Line', 'HalfLine', 'Plane')} | {('Line', 'Plane'), ('ConvexPolygon', 'Plane'), ('ConvexPolygon', 'ConvexPolyhedron')} | \
    {('Point', k) for k in ('Line', 'HalfLine', 'Segment', 'Plane', 'ConvexPolygon', 'ConvexPolyhedron')}


def band_any(ctx, X, Y, Yc=None, Xc=None):
    """admissibility between two reference objects (either may come from a library result); Yc / Xc: the concrete
    catalogue body behind Y / X when there is one (gives the edge and face incidences)"""
    if X.kind in FLAT and Y.kind in FLAT:
        R.band_pair(ctx, X, Y)
    elif X.kind in FLAT and Yc is not None:
        R.band_flat_body(ctx, X, Y, Yc)
    elif Y.kind in FLAT and Xc is not None:
        R.band_flat_body(ctx, Y, X, Xc)
    elif X.kind in FLAT:
        for x in R.anchors(X):
            R.band_point(ctx, Y, x)
        if X.kind != 'Point':
            for v in Y.v:
                R.band_point(ctx, X, v)
    elif Y.kind in FLAT:
        band_any(ctx, Y, X)
    else:
        for v in X.v:
            R.band_point(ctx, Y, v)
        for v in Y.v:
            R.band_point(ctx, X, v)


def third(kc, variant, body_operands=False):
    """a concrete third operand through the region where the C04 operands live"""
    A0 = (F(-1, 2), F(3, 4), F(1, 4))
    O = B.DEFAULT_ORIGIN if body_operands else (F(0), F(0), F(0))       # follow the default placement of catalogue bodies
    A0 = R.vadd(A0, O)
    if kc == 'Plane':
        n = [(F(0), F(0), F(1)), (F(1), F(0), F(0)), (F(1), F(1), F(0))][variant % 3]
        return R.RPlane(O if variant % 2 else A0, n)
    if kc == 'Line':
        d = [(F(1), F(0), F(0)), (F(0), F(1), F(0)), (F(1), F(1), F(0))][variant % 3]
        return R.RLine(A0 if variant % 2 == 0 else O, d)
    if kc == 'Segment':
        d = [(F(4), F(0), F(0)), (F(0), F(4), F(0)), (F(2), F(2), F(0))][variant % 3]
        p = A0 if variant % 2 == 0 else O
        return R.RSegment(R.vsub(p, R.vscale(F(1, 2), d)), R.vadd(p, R.vscale(F(1, 2), d)))
    if kc == 'HalfLine':
        d = [(F(1), F(0), F(0)), (F(0), F(-1), F(0)), (F(1), F(1), F(1))][variant % 3]
        return R.RHalfLine(A0 if variant % 2 == 0 else O, d)
    if kc == 'Point':
        return R.RPoint(A0 if variant % 3 == 0 else O)
    if kc == 'ConvexPolygon':
        P = B.polygon('square', 'axis', origin=R.vadd((-1, -1, 0), O) if variant % 2 else R.vadd((-2, 0, F(1, 4)), O))
        r = B.rpoly(P)
        r.concrete = P
        return r
    K = B.body('cube', 'axis', origin=R.vadd((-1, -1, -1), O))
    r = B.rbody(K)
    r.concrete = K
    return r


def inter(ctx, x, y, what):
    st, r = call(lambda: G.intersection(x, y))
    if st == 'raise':
        ctx.outcome('raise')
        ctx.fail('C12:%s raises %s' % (what, exc_sig(r)), repr(r))
    return r


def same_set(r1, r2):
    if r1 is None or r2 is None:
        return r1 is None and r2 is None
    return type(r1) is type(r2) and same(r1, r2, deep=False)


def fam_triple(ctx, ka, kb, kc, variant):
    A, Bq = c04.operands(ctx, ka, kb, variant)
    C = third(kc, variant, body_operands=not (ka in FLAT and kb in FLAT))
    if ka in FLAT and kb in FLAT:
        R.band_pair(ctx, A, Bq)
    else:
        H.VertexOracle(A, Bq).band(ctx)
    Cc = getattr(C, 'concrete', None)
    band_any(ctx, A, C, Yc=Cc)
    band_any(ctx, Bq, C, Yc=Cc)
    algebra(ctx, A, Bq, C, Cc)


def fam_edge_cut(ctx, shape, fr_name, kc, swap, slide_plane):
    """a = plane that contains exactly one edge of the body b (no face) and cuts through its interior; c = a line / segment
    through the body that crosses the cut away from the edge.  Either c slides along its own direction (plane fixed through
    the edge) or the plane slides along its normal (through the edge at t = 0)."""
    from . import c02
    Kc, K, dirs, pts = c02.setup_body(shape, fr_name, None)
    n0, e = dirs['normal'], dirs['edge']
    ip = R.cross(n0, e)
    t = ctx.param('t')
    for sgn in (1, -1):
        m = R.vadd(c02._scale_to(n0, F(2)), R.vscale(F(sgn), c02._scale_to(ip, F(1))))
        side = [R.dot(m, R.vsub(v, pts['edgemid'])) for v in Kc.verts]
        if any(x > 0 for x in side) and any(x < 0 for x in side):
            break
    else:
        raise AssertionError('no cutting plane through the edge')
    assert sum(1 for x in side if x == 0) == 2
    d = R.vadd(m, c02._scale_to(e, F(1)))
    c0 = R.vadd(Kc.centre, R.vscale(F(1, 8), e))
    if slide_plane:
        A = R.RPlane(R.affine(pts['edgemid'], (t, c02._scale_to(m, F(1)))), m)
    else:
        A = R.RPlane(pts['edgemid'], m)
        c0 = R.affine(c0, (t, c02._scale_to(d, F(1))))
    C = R.RLine(c0, d) if kc == 'Line' else R.RSegment(R.vsub(c0, R.vscale(F(1, 4), d)), R.vadd(c0, R.vscale(F(1, 4), d)))
    H.VertexOracle(A, K).band(ctx)
    R.band_pair(ctx, A, C)
    R.band_flat_body(ctx, C, K, Kc)
    if swap:
        algebra(ctx, K, A, C, None)
    else:
        algebra(ctx, A, K, C, None)


def algebra(ctx, A, Bq, C, Cc):
    ka, kb, kc = A.kind, Bq.kind, C.kind
    a, b, c = mk(ctx, A), mk(ctx, Bq), mk(ctx, C)
    sig = 'C12:(%s,%s,%s)' % (ka, kb, kc)
    # idempotence
    for o, k in ((a, ka), (b, kb)):
        r = inter(ctx, o, o, 'intersection(x,x)')
        ctx.require(r is not None and same_set(r, o), 'C12:intersection(x, x) != x for %s' % k)
    # absorption: a in b  =>  a n b == a
    rab = inter(ctx, a, b, 'intersection(a,b)')
    st, ain = call(lambda: a in b)
    if (ka, kb) in IN_SUPPORTED and st == 'ok' and isinstance(ain, (bool, core.SymBool)) and bool(ain):
        ctx.outcome('a-in-b')
        ctx.require(rab is not None and same_set(rab, a), sig + ': a in b but intersection(a, b) != a')
    # vertices of the result lie in both operands (exact membership formulas, not the library's `in`)
    if rab is not None:
        Rr = D.as_ref(rab)
        gens, _ = D.generators(Rr)
        for g in gens:
            ctx.require(And(D.near_contains(A, g), D.near_contains(Bq, g)), sig + ': a vertex / endpoint of intersection(a, b) is outside an operand')
    # associativity with None absorbing
    if rab is not None:
        band_any(ctx, D.as_ref(rab), C, Yc=Cc)
    left = inter(ctx, rab, c, 'intersection(intersection(a,b),c)')
    rbc = inter(ctx, b, c, 'intersection(b,c)')
    if rbc is not None:
        band_any(ctx, A, D.as_ref(rbc))
    right = inter(ctx, a, rbc, 'intersection(a,intersection(b,c))')
    ctx.outcome('%s|%s' % (kind_of(left), kind_of(right)))
    ctx.require(same_set(left, right), sig + ': (a n b) n c and a n (b n c) denote different sets (%s vs %s)' % (kind_of(left), kind_of(right)))


TRIPLES_Q = [('Segment', 'Segment', 'Plane'), ('Line', 'Plane', 'Segment'), ('Segment', 'Line', 'Line'), ('HalfLine', 'Segment', 'Plane'),
             ('Plane', 'Plane', 'Plane'), ('Plane', 'Plane', 'Segment'), ('Line', 'Line', 'Plane'), ('HalfLine', 'HalfLine', 'Segment'),
             ('Point', 'Segment', 'Plane'), ('Segment', 'Plane', 'Line'), ('Plane', 'Segment', 'HalfLine'), ('Line', 'HalfLine', 'Point'),
             ('Segment', 'ConvexPolygon', 'Plane'), ('Line', 'ConvexPolygon', 'Segment'), ('Plane', 'ConvexPolygon', 'Line'),
             ('Segment', 'ConvexPolyhedron', 'Plane'), ('Line', 'ConvexPolyhedron', 'Segment'), ('Plane', 'ConvexPolyhedron', 'Line'),
             ('HalfLine', 'ConvexPolyhedron', 'Plane'), ('Point', 'ConvexPolygon', 'Line'), ('ConvexPolygon', 'Segment', 'Plane'),
             ('ConvexPolyhedron', 'Line', 'Plane'), ('ConvexPolyhedron', 'Segment', 'ConvexPolygon'), ('Segment', 'Segment', 'ConvexPolyhedron'),
             ('Line', 'Plane', 'ConvexPolygon'), ('Plane', 'Plane', 'ConvexPolyhedron'), ('HalfLine', 'Line', 'ConvexPolyhedron'),
             ('Plane', 'ConvexPolyhedron', 'Plane'), ('ConvexPolygon', 'ConvexPolygon', 'Line'), ('ConvexPolyhedron', 'ConvexPolygon', 'Line'),
             ('ConvexPolygon', 'ConvexPolygon', 'Point', 2),
             ('HalfLine', 'HalfLine', 'Segment', 0), ('HalfLine', 'Segment', 'Line', 0), ('Segment', 'HalfLine', 'HalfLine', 0)]


def families(tier, seed):
    import random, itertools
    rng = random.Random(seed)
    fams = []
    if tier == 'quick':
        triples = TRIPLES_Q
    else:
        K = c04.KINDS
        allt = [t for t in itertools.product(K, repeat=3) if not (t[0] in ('ConvexPolyhedron',) and t[1] == 'ConvexPolyhedron')]
        triples = TRIPLES_Q + rng.sample([t for t in allt if t not in TRIPLES_Q], 120)
    for i, tr in enumerate(triples):
        ka, kb, kc = tr[:3]
        for v in (((tr[3] if len(tr) > 3 else i % 3),) if tier == 'quick' else (0, 1, 2)):
            if ka == kb == 'Plane' and v == 1:
                v = 0
            fams.append(Family('%s-%s-%s/v%d' % (ka, kb, kc, v), fam_triple, (ka, kb, kc, v)))
    # plane through exactly one edge of a polyhedron, cutting its interior (round-4 seed)
    rows = [('cube', 'axis', 'Segment', False, False), ('tetra', 'oblique', 'Segment', True, False)]
    if tier != 'quick':
        rows += [(s_, f_, 'Segment', sw, sp) for s_ in ('prism', 'pyramid', 'octa') for f_ in ('axis', 'pyth3') for sw, sp in ((False, False), (True, True))]
    for shape, fr, kc, sw, sp in rows:
        fams.append(Family('edge-cut/%s@%s/%s/%s/%s' % (shape, fr, kc, 'swap' if sw else 'fwd', 'plane-slides' if sp else 'c-slides'),
                           fam_edge_cut, (shape, fr, kc, sw, sp)))
    return fams


def _twin_point_plane():
    """mutant: intersection(Point, Plane) is always None"""
    from .c01 import _wrap_public
    _wrap_public('intersection', lambda a, b, r: None if (isinstance(a, Point) and isinstance(b, Plane)) else r)


TWINS = {'intersection(Point, Plane) -> None': (r'^Point-Segment-Plane/', _twin_point_plane)}


META = dict(
    title='algebra of intersection',
    level_text=('Bounded symbolic model checking of nested intersection() calls on the library\'s own (symbolic, non-lattice) intermediate results: operands a, b '
                'from the C01-C03 templates (1-2 real parameters) and a concrete third operand c for curated type triples (quick 30, thorough ~150 of the 343).  '
                'z3 proves on every path intersection(x,x) = x, a in b => a n b = a, that every vertex of a n b satisfies the exact membership formulas of '
                'both operands, and that (a n b) n c and a n (b n c) denote the same set (None absorbing).'),
    level_note='exact-real semantics; admissibility bands are also assumed between intermediate results and the third operand, before the nested call',
    technique='symbolic execution of real code over exact reals (z3 QF_NRA), all paths; relational comparison of differently nested calls',
    bounds=dict(parameters='1-2 reals in [-3,3]', triples='30 (quick) / ~150 (thorough) of 343'),
    outside_claim=['type triples with two polyhedra as a and b', 'the remaining type triples in the quick tier', 'IEEE rounding'],
    assumptions=['admissibility bands for (a,b), (a,c), (b,c), (a n b, c), (a, b n c)'],
)

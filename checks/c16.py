"""C16 -- solve() returns genuine solutions of the linear system."""
from itertools import combinations, product
from .common import *
from symgeo.run import Family

PROP = 'C16'
BUDGET = {'quick': 150, 'thorough': 1500}
DOM = [-2, -1, 0, 1, 2]


def _det(M):
    n = len(M)
    if n == 1:
        return M[0][0]
    if n == 2:
        return M[0][0] * M[1][1] - M[0][1] * M[1][0]
    s = 0
    for j in range(n):
        minor = [row[:j] + row[j + 1:] for row in M[1:]]
        s = s + (-1) ** j * M[0][j] * _det(minor)
    return s


def rank_ge(M, k):
    """formula: rank(M) >= k  (some k x k minor is non-zero)"""
    R_, C_ = len(M), len(M[0])
    if k == 0:
        return True
    if k > min(R_, C_):
        return False
    alts = []
    for rows in combinations(range(R_), k):
        for cols in combinations(range(C_), k):
            d = _det([[M[i][j] for j in cols] for i in rows])
            alts.append(Not(d == 0))
    return Or(*alts)


def fam_solve(ctx, R_, n, fixed, dom=None):
    """R_ equations, n unknowns; `fixed` = concrete values of the first len(fixed) entries (row-major by column
    order below), the others range over DOM as solver variables"""
    # column-major numbering so that fixing a prefix fixes leading columns
    order = [(i, j) for j in range(n + 1) for i in range(R_)]
    M = [[None] * (n + 1) for _ in range(R_)]
    for k, (i, j) in enumerate(order):
        if k < len(fixed):
            M[i][j] = F(fixed[k])
        else:
            M[i][j] = ctx.choice('m%d%d' % (i, j), dom or DOM)
    _solve_body(ctx, R_, n, M)


def fam_solve_prop(ctx, R_, n):
    """every equation is a multiple k_i * r of one row r (k_i, r_j solver variables): consistent systems of rank <= 1 with
    several redundant equations"""
    r = [ctx.choice('r%d' % j, DOM) for j in range(n + 1)]
    k = [ctx.choice('k%d' % i, [-1, 0, 1, 2]) for i in range(R_)]
    M = [[k[i] * r[j] for j in range(n + 1)] for i in range(R_)]
    _solve_body(ctx, R_, n, M)


def fam_solve_shape(ctx, R_, n, mode):
    """the same equation given R_ times as ONE row object (mode 'aliased'), or rows given as tuples (mode 'tuples'): valid augmented
    matrices whose container shape differs from a list of fresh lists"""
    if mode == 'aliased':
        r = [ctx.choice('r%d' % j, DOM) for j in range(n + 1)]
        M = [list(r) for _ in range(R_)]
    else:
        M = [[ctx.choice('m%d%d' % (i, j), [-1, 0, 1, 2]) for j in range(n + 1)] for i in range(R_)]
    _solve_body(ctx, R_, n, M, mode)


def fam_solve_history(ctx, R_, n, pos, a, b):
    """two successive solve() calls in one process history: the second system equals the first except for ONE entry (position `pos`
    of the first row, concrete a -> b; every other entry is a solver variable shared by both systems).  Each answer is checked
    against its own system: a result that depends on an earlier call (memo, cache, module state) fails here."""
    M1 = [[ctx.choice('m%d%d' % (i, j), DOM) for j in range(n + 1)] for i in range(R_)]
    M1[0][pos] = F(a)
    M2 = [list(r) for r in M1]
    M2[0][pos] = F(b)
    _solve_body(ctx, R_, n, M1, tag='h1')
    _solve_body(ctx, R_, n, M2, tag='h2')


def _solve_body(ctx, R_, n, M, mode='fresh', tag=''):
    A = [row[:-1] for row in M]
    lib_m = [[ctx.lib(x) if not isinstance(x, F) else int(x) for x in row] for row in M]
    if mode == 'aliased':
        row = list(lib_m[0])
        arg = [row for _ in range(R_)]
    elif mode == 'tuples':
        arg = [tuple(r) for r in lib_m]       # (the outer container must be a list: the library swaps rows in it)
    else:
        arg = [list(r) for r in lib_m]
    st, sol = call(G.solve, arg)
    if st == 'raise':
        ctx.outcome('raise')
        ctx.fail('C16:solve raises %s' % exc_sig(sol), repr(sol))
    st, truthy = call(lambda: bool(sol))
    if st == 'raise':
        ctx.fail('C16:bool(solve(m)) raises %s' % exc_sig(truthy), repr(truthy))
    consistent = And(*[Implies(rank_ge(M, k), rank_ge(A, k)) for k in range(1, min(R_, n + 1) + 1)])
    ctx.outcome('consistent' if truthy else 'inconsistent')
    ctx.require(Iff(consistent, truthy), 'C16:truthiness wrong (library says %s)' % ('solvable' if truthy else 'unsolvable'))
    if not truthy:
        return
    va = sol.varargs
    if isinstance(va, core.SymNum) or not isinstance(va, int):
        ctx.fail('C16:varargs not an int')
    ctx.outcome('free%d' % va)
    rk = n - va
    ok_rank = And(rank_ge(A, rk), Not(rank_ge(A, rk + 1))) if 0 <= rk <= n else False
    ctx.require(ok_rank, 'C16:varargs != unknowns - rank (library varargs=%d, unknowns=%d)' % (va, n))
    ctx.require(Iff(sol.exact, va == 0) if isinstance(sol.exact, bool) else False, 'C16:exact flag inconsistent')
    vals = [ctx.param(tag + 'v%d' % k) for k in range(va)]
    st, xs = call(lambda: sol(*[ctx.lib(v) for v in vals]))
    if st == 'raise':
        ctx.outcome('call-raise')
        ctx.fail('C16:calling the solution raises %s' % exc_sig(xs), repr(xs))
    if not isinstance(xs, tuple) or len(xs) != n:
        ctx.fail('C16:solution is not a tuple of %d numbers' % n)
    if any(x is None for x in xs):
        ctx.outcome('has-None')
        ctx.fail('C16:solution tuple contains None', repr(xs))
    tol = F(1, 10 ** 9)
    for i in range(R_):
        lhs = sum(M[i][j] * xs[j] for j in range(n))
        ctx.require(near(lhs, M[i][n], tol), 'C16:returned tuple does not satisfy an equation')
    # the Solution object may be called again (with other free values): the answer must again be a solution
    vals2 = [ctx.param(tag + 'w%d' % k) for k in range(va)]
    st, ys = call(lambda: sol(*[ctx.lib(v) for v in vals2]))
    if st == 'raise':
        ctx.fail('C16:calling the solution a second time raises %s' % exc_sig(ys), repr(ys))
    ctx.require(isinstance(ys, tuple) and len(ys) == n and not any(y is None for y in ys), 'C16:second call does not return a tuple of numbers')
    for i in range(R_):
        lhs = sum(M[i][j] * ys[j] for j in range(n))
        ctx.require(near(lhs, M[i][n], tol), 'C16:tuple returned by a second call of the same Solution does not satisfy an equation')
    st, b2 = call(lambda: (bool(sol), sol.varargs))
    ctx.require(st == 'ok' and b2 == (True, va), 'C16:truthiness / varargs change after calling the solution')


def families(tier, seed):
    fams = []
    shapes = [(1, 2), (1, 3), (2, 2), (2, 3)] if tier == 'quick' else [(1, 2), (1, 3), (2, 2), (2, 3), (3, 2), (3, 3)]
    for R_, n in shapes:
        total = R_ * (n + 1)
        # how many leading entries are enumerated concretely (only to split the work over the cores)
        nfix = 0
        if (R_, n) in ((2, 2),):
            nfix = 1
        if (R_, n) == (2, 3):
            nfix = 2
        if (R_, n) == (3, 2):
            nfix = 3
        dom = DOM
        if (R_, n) == (3, 3):
            # 12 entries: the full {-2..2} domain is out of reach (5^12 matrices explored path-wise); entries over {-1,0,1},
            # first column enumerated concretely
            nfix, dom = 3, [-1, 0, 1]
        for fixed in product(dom, repeat=nfix):
            fams.append(Family('solve/%dx%d/%s' % (R_, n, ','.join(map(str, fixed)) or '-'), fam_solve, (R_, n, fixed, dom),
                               budget_s=None))
    for R_, n, mode in ((2, 2, 'aliased'), (3, 2, 'aliased'), (2, 3, 'aliased'), (2, 2, 'tuples')):
        fams.append(Family('solve-%s/%dx%d' % (mode, R_, n), fam_solve_shape, (R_, n, mode), budget_s=None))
    for R_, n in (((3, 2),) if tier == 'quick' else ((3, 2), (3, 3))):
        fams.append(Family('solve-proportional/%dx%d' % (R_, n), fam_solve_prop, (R_, n), budget_s=None))
    # histories: the same system with one entry changed, solved right after the first (every ordered pair of distinct values)
    hshapes = [(1, 2), (1, 3)] if tier == 'quick' else [(1, 2), (1, 3), (2, 2)]
    for R_, n in hshapes:
        for pos in range(n + 1):
            for a, b in product(DOM, repeat=2):
                if a != b:
                    fams.append(Family('solve-history/%dx%d/e%d/%d>%d' % (R_, n, pos, a, b), fam_solve_history, (R_, n, pos, a, b),
                                       budget_s=None))
    return fams


def _twin_always_solvable():
    import Geometry3D.utils.solver as sv
    sv.Solution.__bool__ = lambda self: True


TWINS = {'Solution.__bool__ always True': (r'^solve/1x2/-$', _twin_always_solvable)}


META = dict(
    title='solve returns genuine solutions',
    level_text=('Bounded symbolic model checking of the real gaussian_elimination/Solution code: every entry of the augmented matrix is a '
                'solver variable over {-2..2} (a few leading entries are enumerated concretely only to spread the work over cores), '
                'free-parameter values are real variables in [-3,3]; every path is explored and on each the solver proves truthiness <=> '
                'rank(A)=rank(A|b) (minor formulas), varargs = unknowns - rank, no None and zero residual.'),
    level_note='exact rational semantics (entries are small integers so float rounding cannot flip a comparison); z3 trusted for unsat',
    technique='symbolic execution of real code (z3, finite-domain reals), all paths; oracle = rank via minors',
    bounds=dict(histories='two successive solve() calls on systems differing in one concrete entry (all ordered value pairs, every position of the first row; 1x2, 1x3; thorough adds 2x2)', shapes='quick: 1x2,1x3,2x2,2x3 unknowns; thorough adds 3x2,3x3', entries='{-2,-1,0,1,2} (3x3: {-1,0,1})', free_values='reals in [-3,3]'),
    outside_claim=['entries outside {-2..2}', 'more than 3 equations / 3 unknowns', 'call histories longer than two solve() calls'],
    assumptions=['none beyond the entry domain'],
)

"""C14 -- shape builders produce the specified inscribed shapes for every pose."""
import math as _m
from .common import *
from .c07 import V3, pnear, set_match
from .c20 import snap, snap_eq
from Geometry3D import Parallelogram, Parallelepiped, Circle, Cylinder, Cone, Sphere
from symgeo import shims
from symgeo.run import Family

PROP = 'C14'
BUDGET = {'quick': 150, 'thorough': 1200}
REL = F(1, 10 ** 9)
AXES = {'+x': (1, 0, 0), '-x': (-1, 0, 0), '+y': (0, 1, 0), '-y': (0, -1, 0), '+z': (0, 0, 1), '-z': (0, 0, -1), 'xy': (1, 1, 0), 'x-z': (1, 0, -1),
        'xyz': (1, 1, 1), '-x-y-z': (-1, -1, -1), 'x2y2z': (1, 2, 2), '-2x3y6z': (-2, 3, 6), 'near+x': (8, 0, F(1, 4)), 'near-x': (-8, F(1, 4), 0)}


def relclose(ctx, val, exact, what, scale=None):
    tol = REL * 100 * (scale if scale is not None else 1)
    ctx.require(near(val, exact, tol), what)


def on_circle(ctx, pts, c, axis, r, n, what):
    """pts: n library Points on the circle of radius r about c in the plane orthogonal to axis, at equal angular steps"""
    ctx.require(len(pts) == n, what + ': wrong number of vertices')
    cosst = F(_m.cos(2 * _m.pi / n))
    aa = R.norm2(axis)
    rr = r * r
    for i, p in enumerate(pts):
        w = R.vsub(V3(p), c)
        ctx.require(near(R.norm2(w), rr, REL * 100 * (1 + rr)), what + ': a vertex is not at distance radius from the centre')
        q = R.dot(w, axis)
        ctx.require(q * q <= REL * REL * 10 ** 4 * aa * (1 + rr), what + ': a vertex is not in the plane orthogonal to the axis')
    for i in range(n):
        w1, w2 = R.vsub(V3(pts[i]), c), R.vsub(V3(pts[(i + 1) % n]), c)
        ctx.require(near(R.dot(w1, w2), rr * cosst, REL * 1000 * (1 + rr)), what + ': consecutive vertices are not one equal angular step apart')


def setup(ctx, aname, tilt=None):
    c = tuple(ctx.param('c%d' % i) for i in range(3))
    r = ctx.param('r', F(1, 4), 8)
    axis = tuple(F(x) for x in AXES[aname])
    if tilt is not None:
        t = ctx.param('t', -1, 1)
        w = [(F(0), F(1), F(0)), (F(0), F(0), F(1)), (F(0), F(1), F(1))][tilt]
        axis = R.affine(axis, (t, w))
        # a tilt direction parallel to the axis only rescales it and reaches the zero vector at t = -1: not a valid normal
        ctx.assume(R.norm2(axis) >= F(1, 16))
    return c, r, axis


def fam_circle(ctx, aname, n, tilt):
    c, r, axis = setup(ctx, aname, tilt)
    cp, av = pt(ctx, c), vec(ctx, axis)
    s0 = (snap(cp), snap(av))
    st, poly = call(lambda: Circle(cp, av, ctx.lib(r), n))
    if st == 'raise':
        ctx.outcome('raise')
        ctx.fail('C14:Circle raises %s' % exc_sig(poly), repr(poly))
    ctx.require(And(snap_eq(s0[0], snap(cp)), snap_eq(s0[1], snap(av))), 'C14:Circle modifies its arguments')
    on_circle(ctx, list(poly.points), c, axis, r, n, 'C14:Circle')
    st, pl = call(lambda: G.get_circle_point_list(cp, av, ctx.lib(r), n))
    if st == 'ok':
        on_circle(ctx, list(pl), c, axis, r, n, 'C14:get_circle_point_list')
    if tilt is None:
        st, a = call(poly.area)
        if st == 'raise':
            ctx.fail('C14:Circle(...).area() raises %s' % exc_sig(a), repr(a))
        exact = F(n) / 2 * r * r * F(_m.sin(2 * _m.pi / n))
        relclose(ctx, a, exact, 'C14:Circle area is not n/2 r^2 sin(2 pi/n)', scale=1 + r * r)
    ctx.outcome('ok')


def fam_cyl_cone(ctx, which, aname, n, hk):
    c, r, axis = setup(ctx, aname)
    h = R.vscale(F(hk), axis)
    cp, hv = pt(ctx, c), vec(ctx, h)
    s0 = (snap(cp), snap(hv))
    fn = Cylinder if which == 'Cylinder' else Cone
    st, body = call(lambda: fn(cp, ctx.lib(r), hv, n))
    if st == 'raise':
        ctx.outcome('raise')
        ctx.fail('C14:%s raises %s' % (which, exc_sig(body)), repr(body))
    ctx.require(And(snap_eq(s0[0], snap(cp)), snap_eq(s0[1], snap(hv))), 'C14:%s modifies its arguments' % which)
    V, E, Fc = len(body.point_set), len(body.segment_set), len(body.convex_polygons)
    want = (2 * n, 3 * n, n + 2) if which == 'Cylinder' else (n + 1, 2 * n, n + 1)
    ctx.require((V, E, Fc) == want, 'C14:%s has V,E,F = %s instead of %s' % (which, (V, E, Fc), want))
    top = R.vadd(c, h)
    hh = R.norm2(h)
    bottom, upper = [], []
    for p in body.point_set:
        # classify by height along the axis (0 or |h|^2): decided by the solver on the symbolic coordinates
        s = R.dot(R.vsub(V3(p), c), h)
        if ctx.holds(near(s, 0, REL * 1000 * (1 + hh))):
            bottom.append(p)
        else:
            upper.append(p)
    if which == 'Cylinder':
        ctx.require(len(bottom) == n and len(upper) == n, 'C14:Cylinder does not have n vertices on each circle')
        for p in upper:
            w = R.vsub(V3(p), top)
            ctx.require(And(near(R.norm2(w), r * r, REL * 100 * (1 + r * r)), near(R.dot(w, h), 0, REL * 1000 * (1 + hh) * (1 + r))),
                        'C14:Cylinder top vertices are not on the circle about centre + height')
    else:
        ctx.require(len(bottom) == n and len(upper) == 1 and pnear(upper[0], top), 'C14:Cone apex is not centre + height vector')
    for p in bottom:
        w = R.vsub(V3(p), c)
        ctx.require(near(R.norm2(w), r * r, REL * 100 * (1 + r * r)), 'C14:%s base vertices are not on the base circle' % which)
    base_area = F(n) / 2 * r * r * F(_m.sin(2 * _m.pi / n))
    hlen = F(_m.sqrt(float(hh)))
    exact = base_area * hlen if which == 'Cylinder' else base_area * hlen / 3
    # closed-form volume: decided for the Cone; for the Cylinder (rectangular side faces: sums of Heron radicals with float
    # unit vectors) z3 did not decide the identity within 300 s, so it is attempted in the thorough tier only
    for name, f in (((which + '.volume()', body.volume),) if (which == 'Cone' or ctx_tier[0] == 'thorough') else ()):
        st, v = call(f)
        if st == 'raise':
            ctx.fail('C14:%s raises %s' % (name, exc_sig(v)), repr(v))
        try:
            relclose(ctx, v, exact, 'C14:%s is not the closed-form volume of the inscribed shape' % name, scale=1 + r * r)
        except core.Inconclusive:
            if which != 'Cylinder':
                raise
            # the Cylinder identity (sums of Heron radicals) is beyond the solver for most poses: left undecided for ALL parameter
            # values on this path without giving up the rest of the family; the float replay of the path witnesses still checks it
            # numerically (concrete values are always decided)
            pass
    ctx.outcome('ok')


def fam_sphere(ctx, n1, n2):
    c = tuple(ctx.param('c%d' % i) for i in range(3))
    r = ctx.param('r', F(1, 4), 8)
    cp = pt(ctx, c)
    s0 = snap(cp)
    st, body = call(lambda: Sphere(cp, ctx.lib(r), n1, n2))
    if st == 'raise':
        ctx.outcome('raise')
        ctx.fail('C14:Sphere raises %s' % exc_sig(body), repr(body))
    ctx.require(snap_eq(s0, snap(cp)), 'C14:Sphere modifies its centre argument')
    V, E, Fc = len(body.point_set), len(body.segment_set), len(body.convex_polygons)
    wantV = 2 + n1 * (2 * n2 - 1)
    wantF = 2 * n1 * n2
    ctx.require(V == wantV and Fc == wantF and V - E + Fc == 2, 'C14:Sphere has V,E,F = %s (expected V=%d, F=%d)' % ((V, E, Fc), wantV, wantF))
    lat = sorted(set([0.0] + [s * _m.sin(_m.pi / 2 / n2 * (i + 1)) for i in range(n2) for s in (1, -1)]))
    for p in body.point_set:
        w = R.vsub(V3(p), c)
        ctx.require(near(R.norm2(w), r * r, REL * 100 * (1 + r * r)), 'C14:a Sphere vertex is not on the sphere')
        ctx.require(Or(*[near(w[2], F(l) * r, REL * 1000 * (1 + r)) for l in lat]), 'C14:a Sphere vertex is not on a ring at an equal latitude step')
    ctx.outcome('ok')


def fam_para(ctx, which, fr_name, scaled):
    e1, e2, e3 = B.frame_vectors(fr_name)
    b = tuple(ctx.param('b%d' % i) for i in range(3))
    k = ctx.param('k')
    ctx.assume(Or(k >= F(1, 4), k <= -F(1, 4)))
    v1 = R.vscale(k, e1) if scaled is True else e1
    v2, v3 = e2, R.vadd(e3, R.vscale(F(1, 2), e1))
    if scaled == 'slender':
        # independent edge vectors enclosing a small (or, for k < 0, nearly straight) angle: v2 = e1 + s e2, s >= 1/32
        sh = ctx.param('s', F(1, 32), 2)
        v2 = R.affine(e1, (sh, e2))
    bp, a1, a2, a3 = pt(ctx, b), vec(ctx, v1), vec(ctx, v2), vec(ctx, v3)
    s0 = [snap(x) for x in (bp, a1, a2, a3)]
    if which == 'Parallelogram':
        st, o = call(lambda: Parallelogram(bp, a1, a2))
    else:
        st, o = call(lambda: Parallelepiped(bp, a1, a2, a3))
    if st == 'raise':
        ctx.outcome('raise')
        ctx.fail('C14:%s raises %s' % (which, exc_sig(o)), repr(o))
    ctx.require(And(*[snap_eq(x, snap(y)) for x, y in zip(s0, (bp, a1, a2, a3))]), 'C14:%s modifies its arguments' % which)
    if which == 'Parallelogram':
        exp = [R.affine(b, (i, v1), (j, v2)) for i in (0, 1) for j in (0, 1)]
        ctx.require(len(o.points) == 4 and set_match(o.points, [pt(ctx, x) for x in exp], pnear), 'C14:Parallelogram vertices are not base + {0,1} v1 + {0,1} v2')
        st, a = call(o.area)
        cr = R.cross(v1, v2)
        ctx.require(st == 'ok' and a >= 0 and near(a * a, R.norm2(cr), REL * 100 * (1 + R.norm2(cr))), 'C14:Parallelogram area is not |v1 x v2|')
    else:
        exp = [R.affine(b, (i, v1), (j, v2), (l, v3)) for i in (0, 1) for j in (0, 1) for l in (0, 1)]
        ctx.require(len(o.point_set) == 8 and set_match(o.point_set, [pt(ctx, x) for x in exp], pnear), 'C14:Parallelepiped vertices are not base + {0,1} v_i')
        ctx.require((len(o.segment_set), len(o.convex_polygons)) == (12, 6), 'C14:Parallelepiped does not have 12 edges and 6 faces')
        det = R.det3(v1, v2, v3)
        for name, f in (('Parallelepiped.volume()', o.volume),):
            st, v = call(f)
            if st == 'raise':
                ctx.fail('C14:%s raises %s' % (name, exc_sig(v)), repr(v))
            ctx.require(And(v >= 0, near(v * v, det * det, REL * 100 * (1 + det * det))), 'C14:%s is not |det(v1,v2,v3)|' % name)
    ctx.outcome('ok')


ctx_tier = ['quick']


def _exact(fn):
    def g(ctx, *a):
        old = shims.EXACT_CONCRETE_SQRT[0]
        shims.EXACT_CONCRETE_SQRT[0] = False
        try:
            return fn(ctx, *a)
        finally:
            shims.EXACT_CONCRETE_SQRT[0] = old
    g.__name__ = fn.__name__
    return g


def families(tier, seed):
    fams = []
    ctx_tier[0] = tier
    axes = list(AXES) if tier == 'thorough' else ['+x', '-x', '+y', '-z', 'xyz', 'near-x']
    for an in axes:
        for n in ((3, 4, 6) if tier == 'quick' else (3, 4, 5, 6, 8)):
            if tier == 'quick' and n != 4 and an not in ('+x', '-x', 'xyz'):
                continue
            fams.append(Family('circle/%s/n%d' % (an, n), fam_circle, (an, n, None), must_reach=('ok',)))
    # symbolic axis directions (tilt through the coordinate axes): nested normalisations, thorough tier only
    TILT_W = [(0, 1, 0), (0, 0, 1), (0, 1, 1)]
    for an, tl in ([] if tier == 'quick' else [(a, t) for a in ('+x', '-x', '+y', '-y', '+z', '-z') for t in range(3)
                                                if any(R.cross(tuple(F(x) for x in AXES[a]), tuple(F(x) for x in TILT_W[t])))]):
        fams.append(Family('circle-tilt/%s/w%d/n4' % (an, tl), fam_circle, (an, 4, tl), must_reach=('ok',), budget_s=200 if tier == 'quick' else 600))
    for which in ('Cylinder', 'Cone'):
        for an in (['+x', '-x', '+z', '-y'] if tier == 'quick' else list(AXES)):
            # odd n: a base ring mirrored about an in-plane axis coincides with itself only for even n (round-4 seed)
            for n in (((4, 3) if an == '+z' else (4, 5) if an == '-x' else (4,)) if tier == 'quick' else (3, 4, 5, 6, 8)):
                fams.append(Family('%s/%s/n%d' % (which.lower(), an, n), fam_cyl_cone, (which, an, n, 2 if an != 'xyz' else -1), must_reach=('ok',),
                                   budget_s=150 if tier == 'quick' else 1200))
    # n2 = 4 does not divide 90 (degrees): a latitude step computed in whole degrees is wrong only there
    for n1, n2 in ([(3, 2), (4, 2), (3, 4)] if tier == 'quick' else [(3, 2), (4, 2), (6, 2), (4, 3), (5, 3), (3, 4), (3, 5)]):
        fams.append(Family('sphere/n1=%d/n2=%d' % (n1, n2), fam_sphere, (n1, n2), must_reach=('ok',), budget_s=200 if tier == 'quick' else 1500))
    for fr in (['axis', 'planar'] if tier == 'quick' else ['axis', 'planar', 'oblique', 'pyth3', 'shear']):
        for which in ('Parallelogram', 'Parallelepiped'):
            fams.append(Family('%s/%s/scaled' % (which.lower(), fr), fam_para, (which, fr, True), must_reach=('ok',), budget_s=60 if tier == 'quick' else 600))
            if fr == 'axis' or tier != 'quick':
                fams.append(Family('%s/%s/slender' % (which.lower(), fr), fam_para, (which, fr, 'slender'), must_reach=('ok',), budget_s=60 if tier == 'quick' else 600))
    return fams


def _twin_cone_apex():
    """mutant: Cone puts its apex at centre - height"""
    import sys as _sys
    ph = _sys.modules['Geometry3D.geometry.polyhedron']
    orig = ConvexPolyhedron.Cone.__func__

    def cone(cls, circle_center, radius, height_vector, n=10):
        import copy
        body = orig(cls, circle_center, radius, height_vector, n)
        return orig(cls, copy.deepcopy(circle_center).move(height_vector), radius, height_vector * -1, n) if False else orig(cls, circle_center, radius, height_vector * -1, n)
    ph.ConvexPolyhedron.Cone = classmethod(cone)
    ph.Cone = ph.ConvexPolyhedron.Cone
    import checks.c14 as me
    me.Cone = ph.ConvexPolyhedron.Cone
    G.Cone = ph.ConvexPolyhedron.Cone


TWINS = {'Cone apex at centre - height': (r'^cone/\+z/n4$', _twin_cone_apex)}


META = dict(
    title='shape builders',
    level_text=('Bounded symbolic model checking of the real Parallelogram, Parallelepiped, Circle, Cylinder, Cone and Sphere builders: centre / base point '
                '(3 reals) and radius r in [1/4, 8] or edge scale are symbolic, the axis direction ranges over a list of lattice directions including +-x, +-y, '
                '+-z, diagonals and near-axis ones plus 1-parameter tilt families through the coordinate axes, the resolution n is concrete (3-6; thorough 8).  '
                'z3 proves on every path the vertex / edge / face counts, that every vertex lies on the specified circle / cylinder / cone / sphere at equal '
                'angular (latitude) steps, apex and top circle at centre + height, closed-form area and volume, and that the arguments are unchanged.'),
    level_note='exact-real semantics with concrete float unit vectors (tolerance 1e-7 relative); n and the axis list are enumerated, pose and size are symbolic',
    technique='symbolic execution of real code over exact reals (z3 QF_NRA), all paths',
    bounds=dict(parameters='4 reals (centre, radius) + optional tilt', n='3,4,6 (quick) / up to 8 (thorough)', sphere='n1 <= 4 (6), n2 <= 2 (3)', axes='7 (quick) / 14 (thorough) directions'),
    outside_claim=['Cylinder closed-form volume and tilted (symbolic) axis directions in the quick tier (thorough tier attempts them)', 'the function form volume(x) on builder results (its distance-based height leaves nested quotient atoms that z3 did not decide in 150 s; volume(x) == x.volume() is covered by C06 for pyramids with a symbolic apex and for rigid polyhedra)', 'n up to 24 and Sphere n1 up to 12, n2 up to 5 (path count of the polyhedron constructor)', 'random axis directions', 'IEEE rounding'],
    assumptions=['radius >= 1/4'],
)

"""C13 -- all queries commute with lattice isometries and uniform scaling."""
import random
from .common import *
from . import c04, c12
from .c07 import V3
from refgeo import denote as D
from refgeo import hrep as H
from symgeo import shims
from symgeo.run import Family

PROP = 'C13'
BUDGET = {'quick': 120, 'thorough': 1200}
FLAT = c04.FLAT
T7 = F(1, 10 ** 6)


def transform(Rf, g, k, tau):
    """image of a reference object under x -> k*g(x) + tau  (g a signed axis permutation)"""
    P = lambda p: R.vadd(R.vscale(k, g(p)), tau)
    Dv = lambda d: R.vscale(k, g(d))
    kind = Rf.kind
    if kind == 'Point':
        return R.RPoint(P(Rf.p))
    if kind == 'Line':
        return R.RLine(P(Rf.p), Dv(Rf.d))
    if kind == 'HalfLine':
        return R.RHalfLine(P(Rf.p), Dv(Rf.d))
    if kind == 'Segment':
        return R.RSegment(P(Rf.a), P(Rf.b))
    if kind == 'Plane':
        return R.RPlane(P(Rf.p), g(Rf.n))
    if kind == 'ConvexPolygon':
        r = R.RPolygon([P(v) for v in Rf.v])
        return r
    r = R.RPolyhedron([P(v) for v in Rf.v], [[P(v) for v in f] for f in Rf.faces])
    r.oriented = [(g(n), P(p0)) for n, p0 in Rf.oriented]
    return r


def vset_eq(xs, ys, tol):
    xs, ys = list(xs), list(ys)
    if len(xs) != len(ys):
        return False
    return And(*([Or(*[R.vnear(x, y, tol) for y in ys]) for x in xs] + [Or(*[R.vnear(x, y, tol) for x in xs]) for y in ys]))


def ref_same(X, Y, tol):
    """two reference objects denote the same set"""
    if X.kind != Y.kind:
        return False
    k = X.kind
    if k == 'Point':
        return R.vnear(X.p, Y.p, tol)
    if k == 'Segment':
        return Or(And(R.vnear(X.a, Y.a, tol), R.vnear(X.b, Y.b, tol)), And(R.vnear(X.a, Y.b, tol), R.vnear(X.b, Y.a, tol)))
    if k in ('Line', 'HalfLine'):
        par = R.norm2(R.cross(X.d, Y.d)) <= tol * tol * (1 + R.norm2(X.d) * R.norm2(Y.d))
        if k == 'HalfLine':
            return And(par, R.dot(X.d, Y.d) > 0, R.vnear(X.p, Y.p, tol))
        w = R.vsub(Y.p, X.p)
        return And(par, R.norm2(R.cross(w, X.d)) <= tol * tol * (1 + R.norm2(X.d)) * (1 + R.norm2(w)))
    if k == 'Plane':
        q = R.dot(X.n, R.vsub(Y.p, X.p))
        return And(R.norm2(R.cross(X.n, Y.n)) <= tol * tol * (1 + R.norm2(X.n) * R.norm2(Y.n)), q * q <= tol * tol * (1 + R.norm2(X.n)))
    return vset_eq(X.v, Y.v, tol)


def cosine_of(ang):
    import math
    if isinstance(ang, shims.SymAcos):
        return ang.kind, ang.x
    return 'num', ang


def fam_sym(ctx, ka, kb, variant, gi, k, tvec):
    A, Bq = c04.operands(ctx, ka, kb, variant)
    if ka in FLAT and kb in FLAT:
        R.band_pair(ctx, A, Bq)
    else:
        H.VertexOracle(A, Bq).band(ctx)
    g = B.signed_perm_map(gi)
    s = ctx.param('tau', -1, 1)
    tau = (F(tvec[0]) + s, F(tvec[1]), F(tvec[2]))
    k = F(k)
    A2, B2 = transform(A, g, k, tau), transform(Bq, g, k, tau)
    a, b, a2, b2 = mk(ctx, A), mk(ctx, Bq), mk(ctx, A2), mk(ctx, B2)
    sig = 'C13:%%s(%s,%s) under g#%d k=%s' % (ka, kb, gi, k)
    tol = T7 * (1 + k)
    # intersection maps covariantly
    st, r = call(lambda: G.intersection(a, b))
    st2, r2 = call(lambda: G.intersection(a2, b2))
    if st != st2:
        ctx.fail(sig % 'intersection' + ': raises for only one of the two congruent configurations', repr((r, r2)))
    if st == 'ok':
        ctx.outcome(kind_of(r))
        if r is None or r2 is None:
            ctx.require(r is None and r2 is None, sig % 'intersection' + ': None for only one of the two congruent configurations')
        else:
            ctx.require(ref_same(transform(D.as_ref(r), g, k, tau), D.as_ref(r2), tol), sig % 'intersection' + ': result does not map by the same transformation')
    # membership
    if (ka, kb) in c12.IN_SUPPORTED:
        st, m = call(lambda: a in b)
        st2, m2 = call(lambda: a2 in b2)
        ctx.require(st == st2 and (st == 'raise' or bool(m) == bool(m2)), sig % 'in' + ': answer changes under the transformation')
    # equality
    st, e = call(lambda: a == b)
    st2, e2 = call(lambda: a2 == b2)
    ctx.require(st == st2 and (st == 'raise' or bool(e) == bool(e2)), sig % '==' + ': answer changes under the transformation')
    # a polygon equals its negation (same point set) in every pose
    for o, o2, kk in ((a, a2, ka), (b, b2, kb)):
        if kk == 'ConvexPolygon':
            st, e = call(lambda: (o == -o, type(o).__hash__(o) == type(o).__hash__(-o)))
            st2, e2 = call(lambda: (o2 == -o2, type(o2).__hash__(o2) == type(o2).__hash__(-o2)))
            ctx.require(st == st2 == 'ok' and bool(e[0]) and bool(e2[0]) and bool(e[1]) and bool(e2[1]), 'C13:polygon == -polygon / hash depends on the pose under g#%d' % gi)
    # distance x k
    if {ka, kb} <= {'Point', 'Line', 'Plane'} and not (ka == kb == 'Plane'):
        st, d = call(lambda: G.distance(a, b))
        st2, d2 = call(lambda: G.distance(a2, b2))
        ctx.require(st == st2 and (st == 'raise' or near(d2, k * d, tol)), sig % 'distance' + ': does not scale by k')
    # angle / parallel / orthogonal invariant
    if {ka, kb} <= {'Line', 'Plane'}:
        st, an = call(lambda: G.angle(a, b))
        st2, an2 = call(lambda: G.angle(a2, b2))
        if st != st2:
            ctx.fail(sig % 'angle' + ': raises for only one configuration')
        if st == 'ok':
            (k1, x1), (k2, x2) = cosine_of(an), cosine_of(an2)
            if k1 == k2:
                ctx.require(near(x1, x2, F(1, 10 ** 8)), sig % 'angle' + ': changes under the transformation')
            elif ctx.mode == 'sym':
                import math
                conv = lambda kk, x: x if kk != 'num' else F(math.cos(x) if (k1 if kk == k2 else k2) == 'acos' else math.sin(x))
                kind = k1 if k1 != 'num' else k2
                xa = x1 if k1 != 'num' else F(math.cos(x1) if kind == 'acos' else math.sin(x1))
                xb = x2 if k2 != 'num' else F(math.cos(x2) if kind == 'acos' else math.sin(x2))
                ctx.require(near(xa, xb, F(1, 10 ** 8)), sig % 'angle' + ': changes under the transformation')
        for name in ('parallel', 'orthogonal'):
            st, p1 = call(lambda: getattr(G, name)(a, b))
            st2, p2 = call(lambda: getattr(G, name)(a2, b2))
            ctx.require(st == st2 and (st == 'raise' or bool(p1) == bool(p2)), sig % name + ': changes under the transformation')
    # measures
    for o, o2, kk in ((a, a2, ka), (b, b2, kb)):
        for name, pw in (('length', 1), ('area', 2), ('volume', 3)):
            f, f2 = getattr(o, name, None), getattr(o2, name, None)
            if callable(f):
                st, v = call(f)
                st2, v2 = call(f2)
                ctx.require(st == st2 and (st == 'raise' or near(v2, k ** pw * v, T7 * (1 + k ** pw))), 'C13:%s.%s does not scale by k^%d under g#%d k=%s' % (kk, name, pw, gi, k))


def fam_polyneg(ctx, shape, fr_name, gi, k):
    """a polygon in an oblique plane and its images: == / hash against the negated (same point set) and the reversed-order
    polygon must not depend on the pose"""
    P = B.polygon(shape, fr_name)
    g = B.signed_perm_map(gi)
    u = tuple(ctx.param('u%d' % i) for i in range(3))
    k = F(k)
    sig = 'C13:polygon equality under g#%d k=%s' % (gi, k)
    for pose, T in (('original', lambda p: R.vadd(p, u)), ('image', lambda p: R.vadd(R.vscale(k, g(p)), u))):
        vs = [T(v) for v in P.verts]
        p1 = ConvexPolygon(tuple(pt(ctx, v) for v in vs))
        p2 = ConvexPolygon(tuple(pt(ctx, v) for v in reversed(vs)))
        for name, q in (('reversed vertex order', p2), ('negation', -p1)):
            st, e = call(lambda: (p1 == q, q == p1, type(p1).__hash__(p1) == type(q).__hash__(q)))
            ctx.require(st == 'ok' and all(bool(x) for x in e), sig + ': polygon != its %s in the %s pose' % (name, pose))
    ctx.outcome('ok')


def families(tier, seed):
    rng = random.Random(seed)
    fams = []
    K = c04.KINDS
    gens = [0, 1, 2, 4, 8, 16, 24, 32, 40]          # identity, reflections, axis permutations
    ks = [F(1, 2), 1, 2, 3]
    for ka in K:
        for kb in K:
            if ka == kb == 'ConvexPolyhedron' and tier == 'quick':
                continue
            reps = 1 if tier == 'quick' else 6
            for rep in range(reps):
                gi = rng.choice(gens) if (tier == 'quick' or rep < 3) else rng.randrange(48)
                k = rng.choice(ks)
                tv = (rng.randrange(-2, 3), rng.randrange(-2, 3), rng.randrange(-2, 3))
                v = (K.index(ka) + K.index(kb) + rep) % 3
                if ka == kb == 'Plane':
                    v = 0
                fams.append(Family('%s-%s/v%d/g%d/k%s/t%s' % (ka, kb, v, gi, k, ','.join(map(str, tv))), fam_sym, (ka, kb, v, gi, k, tv),
                                   budget_s=None))
    polys = [('quad', 'yz45'), ('tri', 'oblique')] if tier == 'quick' else [(s, f) for s in ('tri', 'quad', 'penta') for f in ('yz45', 'oblique', 'pyth3', 'planar')]
    for sh, fr in polys:
        for gi in (range(0, 48, 5) if tier == 'quick' else range(48)):
            fams.append(Family('polyneg/%s@%s/g%d' % (sh, fr, gi), fam_polyneg, (sh, fr, gi, rng.choice(ks)), must_reach=('ok',)))
    return fams


def _twin_axis_special():
    """mutant: intersection results are nudged along +x only (an axis is treated specially: not covariant under axis permutations)"""
    from .c01 import _wrap_public
    _wrap_public('intersection', lambda a, b, r: Point(r.x + F(1, 100), r.y, r.z) if isinstance(r, Point) else r)


TWINS = {'point results nudged along +x': (r'^(Line|Segment|HalfLine)-(Plane|Line|Segment)/v\d/g[1-9]', _twin_axis_special)}

META = dict(
    title='queries commute with lattice isometries and scaling',
    level_text=('Relational bounded symbolic model checking: a C01-C03 operand pair (1-2 real parameters) and its image under x -> k*g(x) + tau (g one of the 48 '
                'signed axis permutations, k in {1/2,1,2,3}, tau a lattice vector plus one symbolic component) are both run through the real code on the same path, '
                'and z3 relates the two symbolic results: intersection maps covariantly (denotational equality of the transformed result), membership, ==, angle, '
                'parallel, orthogonal are unchanged, distance and length scale by k, area by k^2, volume by k^3.'),
    level_note='exact-real semantics; the claim is per listed (operand family, g, k) - the catalogue is not closed under the group',
    technique='symbolic execution of real code over exact reals (z3 QF_NRA), all paths; relational (two-run) comparison on each path',
    bounds=dict(parameters='2-3 reals', transformations='quick: one seeded (g,k,tau) per ordered type pair from 9 generators/reflections; thorough: 6 per pair over all 48'),
    outside_claim=['closure over the whole group for inputs outside the catalogue', 'IEEE rounding'],
    assumptions=['admissibility bands of the untransformed configuration'],
)

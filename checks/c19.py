"""C19 -- tolerance is uniform and follows set_eps / set_sig_figures."""
from .common import *
from .c07 import same, V3
from .c08 import H_, hash_eq
from symgeo import shims
from symgeo.run import Family

PROP = 'C19'
BUDGET = {'quick': 150, 'thorough': 900}


def apply_history(hist):
    for op, k in hist:
        if op == 'eps':
            G.set_eps(1.0 / 10 ** k) if k is not None else G.set_eps()
        else:
            G.set_sig_figures(k) if k is not None else G.set_sig_figures()


def final_k(hist):
    op, k = hist[-1]
    return 10 if k is None else k


class Config:
    def __init__(self, hist, exact_round=True):
        self.hist, self.exact = hist, exact_round

    def __enter__(self):
        self.old = shims.ROUND_EXACT[0]
        shims.ROUND_EXACT[0] = self.exact
        apply_history(self.hist)

    def __exit__(self, *a):
        shims.ROUND_EXACT[0] = self.old
        G.set_eps()


BIG = [False]      # catalogue anchored near the top of the coordinate range (|x| ~ 8): a relative tolerance term shows only there


def objects(ctx, kind, frame, d1, d2=None):
    """(base object, perturbed copy, defining points of the base, perturbed defining points): catalogue objects on the
    1/8 lattice in frames with rational unit vectors; d1/d2 perturb the first / second defining point"""
    if frame == 'axis':
        e1, e2, e3 = (F(1), F(0), F(0)), (F(0), F(1), F(0)), (F(0), F(0), F(1))
    else:                         # Pythagorean frame: unit vectors (1,2,2)/3, (2,1,-2)/3, (2,-2,1)/3
        e1, e2, e3 = (F(1), F(2), F(2)), (F(2), F(1), F(-2)), (F(2), F(-2), F(1))
    sc = F(3, 8) if frame != 'axis' else F(1)
    A = (F(3, 8), F(-5, 8), F(9, 8)) if not BIG[0] else (F(31, 4), F(-8), F(13, 2))
    d2 = d2 or (F(0),) * 3
    Ap = R.vadd(A, d1)
    v1 = R.vscale(sc * 2, e1)
    v2 = R.vscale(sc, e2)
    v3 = R.vscale(sc, e3)
    Bq = R.vadd(A, v1)
    Bp = R.vadd(Bq, d2)
    if kind == 'Point':
        return pt(ctx, A), pt(ctx, Ap), [A], [Ap]
    if kind == 'Vector':
        return vec(ctx, A), vec(ctx, Ap), [], []
    if kind == 'Line':
        return Line(pt(ctx, A), pt(ctx, Bq)), Line(pt(ctx, Ap), pt(ctx, Bp)), [A, Bq], [Ap, Bp]
    if kind == 'Segment':
        return Segment(pt(ctx, A), pt(ctx, Bq)), Segment(pt(ctx, Ap), pt(ctx, Bp)), [A, Bq], [Ap, Bp]
    if kind == 'HalfLine':
        return HalfLine(pt(ctx, A), pt(ctx, Bq)), HalfLine(pt(ctx, Ap), pt(ctx, Bp)), [A, Bq], [Ap]
    if kind == 'Plane':
        C = R.vadd(A, v2)
        return (Plane(pt(ctx, A), pt(ctx, Bq), pt(ctx, C)), Plane(pt(ctx, Ap), pt(ctx, Bp), pt(ctx, C)), [A, Bq, C], [Ap, Bp, C])
    if kind == 'ConvexPolygon':
        vs = [A, Bq, R.vadd(Bq, v2), R.vadd(A, v2)]
        # in-plane perturbation only (an out-of-plane one is a non-coplanar polygon: invalid input)
        dl = R.affine((F(0),) * 3, (R.dot(d1, e1) / R.norm2(e1), e1), (R.dot(d1, e2) / R.norm2(e2), e2))
        vp = [R.vadd(A, dl)] + vs[1:]
        return (ConvexPolygon(tuple(pt(ctx, v) for v in vs)), ConvexPolygon(tuple(pt(ctx, v) for v in vp)), vs, vp)
    if kind == 'ConvexPolyhedron':
        base = G.Parallelepiped(pt(ctx, A), vec(ctx, v1), vec(ctx, v2), vec(ctx, v3))
        moved = G.Parallelepiped(pt(ctx, Ap), vec(ctx, v1), vec(ctx, v2), vec(ctx, v3))
        vs = [R.affine(A, (i, v1), (j, v2), (k, v3)) for i in (0, 1) for j in (0, 1) for k in (0, 1)]
        return base, moved, vs, [R.vadd(v, d1) for v in vs]
    raise TypeError(kind)


def fam_config(ctx, hist):
    """the getters after a history of setter calls"""
    with Config(hist):
        k = final_k(hist)
        e, sgf = G.get_eps(), G.get_sig_figures()
        ctx.require(sgf == k, 'C19:get_sig_figures() is %r after %s (expected %d)' % (sgf, hist, k))
        ctx.require(abs(e - 10.0 ** -k) <= 1e-9 * 10.0 ** -k, 'C19:get_eps() is %r after %s (expected 1e-%d)' % (e, hist, k))
        import math
        ctx.require(sgf == round(-math.log10(e)), 'C19:get_sig_figures() != round(-log10(get_eps()))')
    ctx.require(G.get_eps() == 1e-10 and G.get_sig_figures() == 10, 'C19:set_eps() without argument does not restore the defaults')
    G.set_sig_figures(7)
    G.set_sig_figures()
    ctx.require(G.get_eps() == 1e-10 and G.get_sig_figures() == 10, 'C19:set_sig_figures() without argument does not restore the defaults')
    ctx.outcome('ok')


DIRS = [(1, 0, 0), (0, 1, 0), (0, 0, 1), (1, 1, 1), (1, -1, 0), (0, 1, -1), (-1, 0, 1)]


def fam_close(ctx, kind, frame, hist, variant=0):
    """defining coordinates differ by at most eps/1000  =>  equal, hash-equal, mutually containing, coincident.
    The first / second defining point move by delta*a1 / gamma*a2 (a1, a2 concrete sign patterns, |delta|,|gamma| <= eps/1000)"""
    k = final_k(hist)
    lim = F(1, 10 ** (k + 3))
    a1 = tuple(F(c) for c in DIRS[variant % len(DIRS)])
    a2 = tuple(F(c) for c in DIRS[(variant + 3) % len(DIRS)])
    dl = ctx.param('delta', -lim, lim)
    d1 = R.vscale(dl, a1)
    d2 = None
    if kind in ('Line', 'Segment', 'Plane') and not (kind == 'Plane' and frame != 'axis'):
        # (a three-point plane in the Pythagorean frame with two moving points is beyond the solver budget: one moving point there)
        gm = ctx.param('gamma', -lim, lim)
        d2 = R.vscale(gm, a2)
    sig = 'C19:%s at eps=1e-%d' % (kind, k)
    with Config(hist):
        a, b, pa, pb = objects(ctx, kind, frame, d1, d2)
        for x, y in ((a, b), (b, a)):
            st, r = call(lambda: x == y)
            if st == 'raise':
                ctx.fail(sig + ': == raises %s' % exc_sig(r), repr(r))
            ctx.require(bool(r), sig + ': objects within eps/1000 compare unequal')
        st, r = call(lambda: hash_eq(a, b))
        if st == 'raise':
            ctx.fail(sig + ': hash raises %s' % exc_sig(r), repr(r))
        ctx.require(r, sig + ': objects within eps/1000 hash differently')
        if kind not in ('Point', 'Vector'):
            for p in pb:
                st, r = call(lambda: pt(ctx, p) in a)
                ctx.require(st == 'ok' and bool(r), sig + ': does not contain the defining points of its eps/1000 neighbour')
            for p in pa:
                st, r = call(lambda: pt(ctx, p) in b)
                ctx.require(st == 'ok' and bool(r), sig + ': neighbour does not contain the defining points')
            st, r = call(lambda: G.intersection(a, b))
            if st == 'raise':
                ctx.fail(sig + ': intersection of eps/1000 neighbours raises %s' % exc_sig(r), repr(r))
            ctx.require(type(r) is type(a), sig + ': eps/1000 neighbours do not intersect as coincident (got %s)' % kind_of(r))
        if kind in ('Line', 'Segment', 'HalfLine'):
            # a different, non-parallel line through an interior point M of a (so M is in b within the current tolerance) meets b at M:
            # the crossing test (linear solver, null()) must use the current tolerance like every other comparison
            e2 = (F(0), F(1), F(0)) if frame == 'axis' else (F(2), F(1), F(-2))
            M = tuple((x + y) / 2 for x, y in zip(pa[0], pa[1]))
            c = Line(pt(ctx, M), vec(ctx, e2))
            st, r = call(lambda: pt(ctx, M) in b)
            ctx.require(st == 'ok' and bool(r), sig + ': eps/1000 neighbour does not contain an interior point of the object')
            for x, y in ((c, b), (b, c)):
                st, r = call(lambda: G.intersection(x, y))
                if st == 'raise':
                    ctx.fail(sig + ': intersection with a crossing line raises %s' % exc_sig(r), repr(r))
                ctx.require(isinstance(r, Point), sig + ': a line through a point of the object misses its eps/1000 neighbour (got %s)' % kind_of(r))
                lim2 = F(1, 10 ** (2 * k))
                ctx.require(R.norm2(R.vsub(V3(r), M)) <= lim2 * 4, sig + ': crossing point with a line is more than 2 eps away from the common point')
        ctx.outcome('close')
    # restoring the previous eps restores the previous behaviour
    with Config([('eps', None)]):
        a, b, pa, pb = objects(ctx, kind, frame, (F(0),) * 3)
        ctx.require(bool(a == b) and hash_eq(a, b), sig + ': identical objects differ after restoring eps')


def fam_survive(ctx, kind, frame, hist, variant=0):
    """objects that were built, compared and hashed under the DEFAULT configuration and are then used again after the
    configuration history: state cached inside the objects must not keep the old tolerance (and vice versa when the
    default is restored)"""
    k = final_k(hist)
    lim = F(1, 10 ** (k + 3))
    a1 = tuple(F(c) for c in DIRS[variant % len(DIRS)])
    dl = ctx.param('delta', -lim, lim)
    d1 = R.vscale(dl, a1)
    sig = 'C19:%s built before set_eps, used at eps=1e-%d' % (kind, k)
    G.set_eps()
    a, b, pa, pb = objects(ctx, kind, frame, d1, None)
    # exercise every query once under the default configuration (answers there are not asserted: |delta| may exceed 1e-10)
    for fn in (lambda: a == b, lambda: hash_eq(a, b), lambda: (H_(a), H_(b)), lambda: repr(a)):
        call(fn)
    with Config(hist):
        for x, y in ((a, b), (b, a)):
            st, r = call(lambda: x == y)
            ctx.require(st == 'ok' and bool(r), sig + ': objects within eps/1000 compare unequal (stale state from the earlier configuration)')
        st, r = call(lambda: hash_eq(a, b))
        ctx.require(st == 'ok' and r, sig + ': objects within eps/1000 hash differently (stale state from the earlier configuration)')
        fa, fb, _, _ = objects(ctx, kind, frame, d1, None)
        st, r = call(lambda: hash_eq(b, fb))
        ctx.require(st == 'ok' and r, sig + ': an object hashes differently from a freshly built identical twin')
        # ... and objects first used under the new configuration, then under the restored default
        c1, c2, _, _ = objects(ctx, kind, frame, d1, None)
        call(lambda: c1 == c2)
        call(lambda: hash_eq(c1, c2))
    G.set_eps()
    if kind in ('Point', 'Vector'):
        big = ctx.holds(Or(dl > F(4, 10 ** 10) * F(1001, 1000) / max(abs(x) for x in a1 if x), dl < -F(4, 10 ** 10) * F(1001, 1000) / max(abs(x) for x in a1 if x)))
        if big:
            st, r = call(lambda: c1 == c2)
            ctx.require(st == 'ok' and not bool(r), sig + ': objects more than 4 eps apart still compare equal after the default was restored')
    z1, z2, _, _ = objects(ctx, kind, frame, (F(0),) * 3)
    ctx.require(bool(z1 == z2) and hash_eq(z1, z2), sig + ': identical objects differ after restoring eps')
    ctx.outcome('survive')


def fam_far(ctx, kind, frame, hist, axis, big=False):
    """Points / Vectors differing by more than 4 eps in some coordinate compare unequal"""
    BIG[0] = big
    try:
        _fam_far(ctx, kind, frame, hist, axis)
    finally:
        BIG[0] = False


def _fam_far(ctx, kind, frame, hist, axis):
    k = final_k(hist)
    e4 = F(4, 10 ** k)
    big = F(1, 10 ** (k - 2))
    dl = ctx.param('dl', -big, big)
    ctx.assume(Or(dl >= e4 * F(1001, 1000), dl <= -e4 * F(1001, 1000)))
    d1 = tuple(dl if i == axis else F(0) for i in range(3))
    sig = 'C19:%s at eps=1e-%d' % (kind, k)
    with Config(hist):
        a, b, _, _ = objects(ctx, kind, frame, d1)
        for x, y in ((a, b), (b, a)):
            st, r = call(lambda: x == y)
            ctx.require(st == 'ok' and not bool(r), sig + ': objects more than 4 eps apart compare equal')
        ctx.outcome('far')


HISTS_Q = [[('eps', 5)], [('sig', 7)], [('eps', 12)], [('sig', 5), ('eps', 8)], [('eps', 6), ('eps', None), ('sig', 6)]]
HISTS_T = HISTS_Q + [[('eps', k)] for k in (6, 7, 8, 9, 10, 11)] + [[('sig', k)] for k in (5, 6, 8, 9, 11, 12)] + \
    [[('sig', 12), ('eps', 5)], [('eps', 5), ('sig', 12)], [('eps', 9), ('sig', None), ('eps', 7)]]


def _hname(h):
    return '+'.join('%s(%s)' % (op, '' if k is None else k) for op, k in h)


def families(tier, seed):
    fams = []
    hists = HISTS_Q if tier == 'quick' else HISTS_T
    for h in hists + [[('eps', None)], [('sig', None)]]:
        fams.append(Family('config/%s' % _hname(h), fam_config, (h,), must_reach=('ok',)))
    kinds = ['Point', 'Vector', 'Line', 'Plane', 'Segment', 'HalfLine', 'ConvexPolygon', 'ConvexPolyhedron']
    for hi, h in enumerate(hists):
        for kind in kinds:
            frames = ['axis', 'pyth'] if (tier == 'thorough' or hi < 2) else ['axis' if hi % 2 else 'pyth']
            for fr in frames:
                if kind == 'ConvexPolyhedron' and tier == 'quick' and (hi > 1 or fr != 'axis'):
                    continue
                for variant in (range(len(DIRS)) if tier == 'thorough' else sorted({(hi + kinds.index(kind)) % len(DIRS), (hi + 3) % len(DIRS)})):
                    fams.append(Family('close/%s/%s/%s/v%d' % (kind, fr, _hname(h), variant), fam_close, (kind, fr, h, variant), must_reach=('close',),
                                       budget_s=300 if kind == 'ConvexPolyhedron' else None))
        if hi < (2 if tier == 'quick' else 99):
            for kind in kinds:
                if kind == 'ConvexPolyhedron' and tier == 'quick' and hi > 0:
                    continue
                fams.append(Family('survive/%s/axis/%s' % (kind, _hname(h)), fam_survive, (kind, 'axis', h, hi + kinds.index(kind)), must_reach=('survive',),
                                   budget_s=300 if kind == 'ConvexPolyhedron' else None))
        for kind in ('Point', 'Vector'):
            for axis in range(3):
                fams.append(Family('far/%s/%s/axis%d' % (kind, _hname(h), axis), fam_far, (kind, 'axis', h, axis), must_reach=('far',)))
                fams.append(Family('far-big/%s/%s/axis%d' % (kind, _hname(h), axis), fam_far, (kind, 'axis', h, axis, True), must_reach=('far',)))
    return fams


def _twin_fixed_eps():
    def eq(self, other):
        if isinstance(other, Point):
            return abs(self.x - other.x) < 1e-10 and abs(self.y - other.y) < 1e-10 and abs(self.z - other.z) < 1e-10
        return False
    Point.__eq__ = eq


TWINS = {'Point.__eq__ with a hard-wired 1e-10': (r'^close/Point/axis/eps\(5\)/v', _twin_fixed_eps)}


META = dict(
    title='tolerance follows set_eps / set_sig_figures',
    level_text=('Bounded symbolic model checking of the real comparison / hash code under configuration histories: sequences of up to three set_eps / '
                'set_sig_figures calls (power-of-ten arguments, concrete, enumerated) followed by catalogue objects of all eight types (multiples of 1/8, axis and '
                'Pythagorean frames) whose defining points carry symbolic perturbations delta*a1, gamma*a2 (|delta|,|gamma| <= eps/1000; direction patterns enumerated).  z3 proves on every path ==, hash '
                'equality under an exact decimal-rounding model (floor(x*10^n+1/2)/10^n at whatever precision n the code passes to round, live or stale), mutual '
                'containment and coincident intersection; Points/Vectors with a coordinate more than 4 eps apart are proved unequal; defaults are restored.'),
    level_note='exact-real semantics with exact decimal rounding of hashed values (integer terms in the path condition; families are linear)',
    technique='symbolic execution of real code (z3 LIRA), all paths; exact rounding model for hashes; configuration histories enumerated',
    bounds=dict(eps='1e-5 .. 1e-12 (quick: 5 histories, thorough: 20)', perturbations='1-2 reals (delta*a1 on the first, gamma*a2 on the second defining point, sign patterns a1,a2 enumerated) with |delta|,|gamma| <= eps/1000', objects='8 kinds x 2 frames'),
    outside_claim=['non power-of-ten eps values', 'perturbations between eps/1000 and 4 eps (unspecified by the property)', 'IEEE rounding'],
    assumptions=['hashed base quantities are short rationals away from rounding boundaries (the property prescribes such objects)', 'tuple hash collision-free'],
)

"""C17 -- Plane and Line forms round-trip to the same object."""
from .common import *
from .c07 import same, V3, par, pnear
from symgeo.run import Family

PROP = 'C17'
BUDGET = {'quick': 120, 'thorough': 900}
DOM = [-2, -1, 0, 1, 2]
T7 = F(1, 10 ** 7)


def plane_ok(ctx, P, n, p0, sig):
    """P (library Plane) is the plane {x : n.(x - p0) = 0}"""
    pv, pn = P.point_normal()
    q = R.dot(n, R.vsub(V3(pv), p0))
    ctx.require(near(q, 0, T7 * (1 + R.norm2(n))), sig + ': stored point is not on the plane')
    c = R.cross(V3(pn), n)
    ctx.require(R.norm2(c) <= T7 * T7 * (1 + R.norm2(n)), sig + ': normal is not parallel to the defining normal')
    ctx.require(near(R.norm2(V3(pn)), 1, F(1, 10 ** 6)), sig + ': stored normal is not a unit vector')


def fam_general(ctx, mode):
    """Plane(a, b, c, d): coefficients over {-2..2} (every zero pattern) or reals"""
    if mode == 'grid':
        a, b, c, d = [ctx.choice(k, DOM) for k in 'abcd']
        ctx.assume(Not(And(a == 0, b == 0, c == 0)))
    else:
        a, b, c, d = [ctx.param(k) for k in 'abcd']
        for k in (a, b, c):
            ctx.band(k, 1)
        ctx.assume(a * a + b * b + c * c >= F(1, 4))
    sig = 'C17:Plane(a,b,c,d)'
    st, P = call(lambda: Plane(ctx.lib(a), ctx.lib(b), ctx.lib(c), ctx.lib(d)))
    if st == 'raise':
        ctx.outcome('raise')
        ctx.fail(sig + ' raises %s' % exc_sig(P), repr(P))
    ctx.outcome('built')
    n = (a, b, c)
    pv, pn = P.point_normal()
    ctx.require(near(R.dot(n, V3(pv)), d, T7 * 30), sig + ': stored point does not satisfy a x + b y + c z = d')
    ctx.require(R.norm2(R.cross(V3(pn), n)) <= T7 * T7 * 30, sig + ': normal not parallel to (a,b,c)')
    # a probe point: membership <=> the equation holds
    x = tuple(ctx.param('x%d' % i) for i in range(3))
    q = R.dot(n, x) - d
    ctx.assume(Or(q == 0, q * q >= R.MARGIN ** 2 * R.norm2(n)))
    st, inside = call(lambda: pt(ctx, x) in P)
    if st == 'raise':
        ctx.fail(sig + ': `in` raises %s' % exc_sig(inside))
    ctx.require(Iff(q == 0, bool(inside)), sig + ': contains points off / misses points on a x + b y + c z = d')
    # general_form round trip
    st, gf = call(P.general_form)
    if st == 'raise':
        ctx.fail(sig + ': general_form raises %s' % exc_sig(gf))
    st, P2 = call(lambda: Plane(*gf))
    if st == 'raise':
        ctx.outcome('gf-raise')
        ctx.fail(sig + ': Plane(*general_form()) raises %s' % exc_sig(P2), repr(P2))
    ctx.require(same(P, P2), sig + ': Plane(*P.general_form()) is a different plane')


def _normal(ctx, nname, tilt):
    n0 = {'-x': (-1, 0, 0), '-y': (0, -2, 0), '-z': (0, 0, -1), 'x': (1, 0, 0), 'y': (0, 1, 0), 'z': (0, 0, 1), 'yz': (0, 1, 1), 'xz': (1, 0, 1), 'xy': (1, 1, 0), 'negxy': (-1, 2, 0),
          'negyz': (0, -1, 2), 'xyz': (1, 1, 1), 'neg': (-2, 1, 2), 'pyth': (2, 3, 6)}[nname]
    n = tuple(F(c) for c in n0)
    if tilt is not None:
        t = ctx.param('t')
        ctx.band(t, 1)
        e = [(F(1), F(0), F(0)), (F(0), F(1), F(0)), (F(0), F(0), F(1))][tilt]
        n = R.affine(n, (t, e))
        for c in n:
            if isinstance(c, SymNum):
                ctx.band(c, 1)
        ctx.assume(R.norm2(n) >= F(1, 4))
    return n


def fam_forms(ctx, nname, tilt, sympoint, parts=('gf', 'pn', 'par', 'three', 'neg')):
    n = _normal(ctx, nname, tilt)
    if sympoint:
        p0 = tuple(ctx.param('p%d' % i) for i in range(3))
    else:
        p0 = (F(1, 2), F(-3, 4), F(2))
    sig = 'C17:Plane forms'
    st, P = call(lambda: Plane(pt(ctx, p0), vec(ctx, n)))
    if st == 'raise':
        ctx.fail(sig + ': Plane(point, normal) raises %s' % exc_sig(P), repr(P))
    plane_ok(ctx, P, n, p0, sig + ' Plane(p,n)')
    # general form
    if 'gf' in parts:
        st, gf = call(P.general_form)
        if st == 'raise':
            ctx.fail(sig + ': general_form raises %s' % exc_sig(gf))
        st, P1 = call(lambda: Plane(*gf))
        if st == 'raise':
            ctx.outcome('gf-raise')
            ctx.fail(sig + ': Plane(*general_form()) raises %s' % exc_sig(P1), repr(P1))
        ctx.require(same(P, P1), sig + ': Plane(*P.general_form()) != P')
        if 'pn' in parts:
            ctx.require(bool(P1 == P), sig + ': Plane(*P.general_form()) == P is False')
    # point-normal
    if 'pn' in parts:
        pv, pn = P.point_normal()
        st, P2 = call(lambda: Plane(Point(pv), pn))
        ctx.require(st == 'ok' and same(P, P2) and bool(P2 == P), sig + ': Plane(Point(p), n) from point_normal() != P')
    if 'par' not in parts:
        ctx.outcome('ok')
        return
    # parametric
    st, uvw = call(P.parametric)
    if st == 'raise':
        ctx.outcome('par-raise')
        ctx.fail(sig + ': parametric raises %s' % exc_sig(uvw), repr(uvw))
    u, v, w = uvw
    vv, ww = V3(v), V3(w)
    ctx.require(And(near(R.dot(vv, n), 0, T7 * 30), near(R.dot(ww, n), 0, T7 * 30)), sig + ': parametric() vectors are not parallel to the plane')
    ctx.require(R.norm2(R.cross(vv, ww)) >= F(1, 10 ** 6), sig + ': parametric() vectors are linearly dependent')
    st, P3 = call(lambda: Plane(Point(u), v, w))
    if st == 'raise':
        ctx.fail(sig + ': Plane(Point(u), v, w) raises %s' % exc_sig(P3), repr(P3))
    ctx.require(same(P, P3) and (('pn' not in parts) or bool(P3 == P)), sig + ': Plane(Point(u), v, w) from parametric() != P')
    if 'three' not in parts:
        ctx.outcome('ok')
        return
    # three points
    e1, e2 = vv, ww
    a3 = p0
    b3 = R.vadd(p0, (e1[0] * 2, e1[1] * 2, e1[2] * 2))
    c3 = R.vadd(p0, e2)
    st, P4 = call(lambda: Plane(pt(ctx, a3), pt(ctx, b3), pt(ctx, c3)))
    if st == 'raise':
        ctx.fail(sig + ': Plane(3 points) raises %s' % exc_sig(P4), repr(P4))
    ctx.require(same(P, P4), sig + ': Plane through three of its points != P')
    for q in (a3, b3, c3):
        st, ins = call(lambda: pt(ctx, q) in P4)
        ctx.require(st == 'ok' and bool(ins), sig + ': Plane from three points does not contain them')
    # negation
    st, N = call(lambda: -P)
    if st == 'raise':
        ctx.fail(sig + ': -P raises %s' % exc_sig(N))
    ctx.require(And(same(P, N), R.dot(V3(N.n), V3(P.n)) < 0), sig + ': -P does not have the opposite normal and the same points')
    ctx.outcome('ok')


def fam_line(ctx, dname, sym):
    d = {'x': (1, 0, 0), 'y': (0, 2, 0), 'z': (0, 0, -1), 'yz': (0, 1, -1), 'xz': (-1, 0, 2), 'xyz': (1, -2, 2), 'neg': (-3, 1, 0)}[dname]
    d = tuple(F(c) for c in d)
    if sym:
        p = tuple(ctx.param('p%d' % i) for i in range(3))
        k = ctx.param('k')
        ctx.assume(Or(k >= F(1, 10), k <= -F(1, 10)))
        d = R.vscale(k, d)
    else:
        p = (F(1, 4), F(-2), F(3, 2))
    q = R.vadd(p, d)
    sig = 'C17:Line forms'
    st, L1 = call(lambda: Line(pt(ctx, p), pt(ctx, q)))
    st2, L2 = call(lambda: Line(pt(ctx, p), vec(ctx, d)))
    st3, L3 = call(lambda: Line(vec(ctx, p), vec(ctx, d)))
    for s_, L in ((st, L1), (st2, L2), (st3, L3)):
        if s_ == 'raise':
            ctx.fail(sig + ': constructor raises %s' % exc_sig(L), repr(L))
    ctx.require(And(same(L1, L2), same(L1, L3)), sig + ': Line(p,q), Line(p,q-p), Line(pv,dv) differ')
    ctx.require(bool(L1 == L2) and bool(L2 == L3) and bool(L1 == L3), sig + ': the three forms do not compare equal')
    for L in (L1, L2, L3):
        sv, dv = L.parametric()
        st4, L4 = call(lambda: Line(sv, dv))
        ctx.require(st4 == 'ok' and same(L, L4) and bool(L4 == L), sig + ': Line(*parametric()) differs')
        ctx.require(And(R.norm2(R.cross(R.vsub(V3(sv), p), d)) <= T7 * T7 * (1 + R.norm2(d)), par(dv, d)), sig + ': parametric() is not the defining line')
    ctx.outcome('ok')


def families(tier, seed):
    fams = [Family('general/grid', fam_general, ('grid',), must_reach=('built',))]
    if tier == 'thorough':
        fams.append(Family('general/real', fam_general, ('real',), must_reach=('built',)))
    names = ['x', 'y', 'z', '-x', '-y', '-z', 'yz', 'xz', 'xy', 'negxy', 'negyz', 'xyz', 'neg', 'pyth']
    for nm in names:
        fams.append(Family('forms/%s/concrete-normal' % nm, fam_forms, (nm, None, True), must_reach=('ok',)))
    tilts = [('yz', 0), ('xz', 1), ('xy', 2), ('x', 1), ('z', 0)] if tier == 'quick' else [(nm, i) for nm in ('x', 'y', 'z', 'yz', 'xz', 'xy', 'xyz', 'neg') for i in range(3)]
    for nm, i in tilts:
        # symbolic normals make the nested normalisations expensive: one accessor per family, short budget; a family the
        # solver does not decide is reported undecided (never as passed)
        fams.append(Family('forms/%s/tilt%d/general_form' % (nm, i), fam_forms, (nm, i, False, ('gf',)), must_reach=('ok',), budget_s=60 if tier == 'quick' else 400))
        if tier == 'thorough' or (nm, i) == ('yz', 0):
            fams.append(Family('forms/%s/tilt%d/parametric' % (nm, i), fam_forms, (nm, i, False, ('par',)), must_reach=('ok',), budget_s=60 if tier == 'quick' else 400))
    for dn in ['x', 'y', 'z', 'yz', 'xz', 'xyz', 'neg']:
        fams.append(Family('line/%s' % dn, fam_line, (dn, True), must_reach=('ok',)))
    return fams


def _twin_neg_plane():
    Plane.__neg__ = lambda self: Plane(self.p, self.n)


TWINS = {'-plane keeps the normal': (r'^forms/xyz/concrete-normal$', _twin_neg_plane)}


META = dict(
    title='Plane and Line forms round-trip',
    level_text=('Bounded symbolic model checking of the real Plane/Line constructors and form accessors: Plane(a,b,c,d) with all four coefficients as '
                'solver variables over {-2..2} (every zero pattern) and a 3-real probe point; planes with a symbolic point (3 reals) and concrete lattice '
                'normals of every zero pattern, and with normals n0 + t*e_i whose components pass through zero; lines with symbolic point and direction '
                'scale.  On every path z3 proves that general_form, point_normal, parametric, three-point form and negation reproduce the same plane '
                '(denotationally and through ==), that parametric vectors are independent and parallel to the plane, and that the Line forms agree.'),
    level_note='exact-real semantics; witnesses replayed with floats; normals from a finite catalogue plus 1-parameter tilt families',
    technique='symbolic execution of real code over exact reals (z3 QF_NRA), all paths',
    bounds=dict(coefficients='{-2..2}^4 for Plane(a,b,c,d)', parameters='3 reals (point) or 1 real (tilt) in [-3,3]', normals='14 lattice normals (every zero pattern, both signs of the axis directions), 5/24 tilt families'),
    outside_claim=['normals outside the catalogue / more than one tilting component at once', 'IEEE rounding'],
    assumptions=['components of symbolic normals are 0 or >= 1e-3'],
)

"""C04 -- intersection is total, symmetric and typed over all 49 operand type pairs."""
import re as _re
from .common import *
from . import c01, c02, c03
from .c07 import same
from symgeo.run import Family

PROP = 'C04'
BUDGET = {'quick': 100, 'thorough': 900}
KINDS = ['Point', 'Line', 'Plane', 'Segment', 'HalfLine', 'ConvexPolygon', 'ConvexPolyhedron']
FLAT = ('Point', 'Line', 'Plane', 'Segment', 'HalfLine')


def doc_table():
    """result types documented per unordered operand pair, parsed from docs/source/example_operation.rst"""
    path = os.path.join(os.path.dirname(os.path.dirname(G.__file__)), 'docs', 'source', 'example_operation.rst')
    rows, cur = {}, None
    for line in open(path):
        if not line.startswith('|'):
            cur = None if line.startswith('+=') or not line.startswith('+') else cur
            continue
        cells = [c.strip() for c in line.strip().strip('|').split('|')]
        if len(cells) != 3:
            continue
        if cells[0] in KINDS and cells[1] in KINDS:
            cur = frozenset((cells[0], cells[1]))
            rows[cur] = set(x.strip() for x in cells[2].split(',') if x.strip())
        elif cells[0] == '' and cells[1] == '' and cur is not None:
            rows[cur] |= set(x.strip() for x in cells[2].split(',') if x.strip())
    return rows


_DOC = None


def operands(ctx, ka, kb, variant):
    """reference operands of kinds (ka, kb) depending on 1-2 real parameters"""
    fa, fb = ka in FLAT, kb in FLAT
    if fa and fb:
        key = (c01._cls(ka), c01._cls(kb))
        temps = c01.TEMPLATES.get(key, ['slice'])
        tp = temps[variant % len(temps)]
        return c01.build(ctx, ka, kb, tp, 'axis' if variant % 2 == 0 else 'oblique', None)
    if fa != fb:
        fk, bk = (ka, kb) if fa else (kb, ka)
        shape = ('cube', 'tetra')[variant % 2] if bk == 'ConvexPolyhedron' else ('quad', 'tri')[variant % 2]
        Kc, K, dirs, pts = (c02.setup_body if bk == 'ConvexPolyhedron' else c02.setup_poly)(shape, 'axis', None)
        thr, dn, wn = [('vertex', 'edge', 'inplane'), ('centre', 'normal', 'edge'), ('edgemid', 'inplane', 'normal')][variant % 3]
        P0 = pts[thr]
        d = c02._scale_to(dirs[dn], F(3))
        w = c02._scale_to(dirs[wn], F(1))
        t = ctx.param('t')
        if fk == 'Point':
            f = R.RPoint(R.affine(P0, (t, w)))
        elif fk == 'Plane':
            f = R.RPlane(R.affine(P0, (t, d)), d)
        else:
            f = c02._one(fk, R.affine(P0, (t, w), (-F(1, 2), d)), d)
        return (f, K) if fa else (K, f)
    rows = {('ConvexPolygon', 'ConvexPolygon'): [('square', 'square', None, (0, 1, 0), (1, 0, 0)), ('square', 'square', 8, (1, 1, -1), (0, 0, 1)),
                                                 ('wide', 'tall', None, (0, 0, 0), (1, 0, 0)),
                                                 ('tri*2', 'square*1/2', None, (F(1, 2), F(1, 2), 0), (1, 0, 0))],
            ('ConvexPolyhedron', 'ConvexPolygon'): [('cube', 'square', None, (1, 1, -1), (0, 0, 1)), ('cube', 'tri', 8, (-1, 1, 1), (1, 0, 0))],
            ('ConvexPolyhedron', 'ConvexPolyhedron'): [('cube', 'cube', None, (0, 0, 0), (1, 0, 0)), ('cube', 'cube', None, (0, 0, 0), (1, 1, 1))]}
    sw = (ka, kb) == ('ConvexPolygon', 'ConvexPolyhedron')
    k1, k2 = (kb, ka) if sw else (ka, kb)
    sa, sb, pb, base, w = rows[(k1, k2)][variant % len(rows[(k1, k2)])]
    t = ctx.param('t')
    oa = c03._obj(k1, sa, 'axis')
    ob = c03._obj(k2, sb, 'axis', perm=pb)
    off = R.affine(tuple(F(x) for x in base), (t, tuple(F(x) for x in w)))
    A, Bq = c03._ref(oa), c03._ref(ob, off)
    return (Bq, A) if sw else (A, Bq)


def fam_pair(ctx, ka, kb, variant):
    global _DOC
    if _DOC is None:
        _DOC = doc_table()
    A, Bq = operands(ctx, ka, kb, variant)
    # admissibility as in C01-C03
    if ka in FLAT and kb in FLAT:
        R.band_pair(ctx, A, Bq)
    else:
        from refgeo import hrep as H
        H.VertexOracle(A, Bq).band(ctx)
    a, b = mk(ctx, A), mk(ctx, Bq)
    sig = 'C04:intersection(%s,%s)' % (ka, kb)
    forms = [('intersection(a,b)', lambda: G.intersection(a, b)), ('intersection(b,a)', lambda: G.intersection(b, a))]
    if ka != 'Point':
        forms.append(('a.intersection(b)', lambda: a.intersection(b)))
    res = []
    for name, fn in forms:
        st, r = call(fn)
        if st == 'raise':
            ctx.outcome('raise')
            what = 'NotImplementedError' if isinstance(r, NotImplementedError) else ('internal Bug-detected error' if 'Bug detected' in str(r) else type(r).__name__)
            ctx.fail('%s: %s raises %s (%s)' % (sig, name, what, exc_sig(r)), repr(r))
        res.append((name, r))
    r0 = res[0][1]
    ctx.outcome(kind_of(r0))
    allowed = _DOC.get(frozenset((ka, kb)))
    if allowed is None:
        ctx.fail(sig + ': pair missing from the documented table')
    ctx.require(kind_of(r0) in allowed, '%s: result type %s is not documented for this pair (%s)' % (sig, kind_of(r0), sorted(allowed)))
    for name, r in res[1:]:
        ok = (r is None) if r0 is None else (type(r) is type(r0) and same(r0, r, deep=False))
        ctx.require(ok, '%s: %s denotes a different set than intersection(a,b)' % (sig, name))
    for name, fn in (('intersection(None,b)', lambda: G.intersection(None, b)), ('intersection(a,None)', lambda: G.intersection(a, None)),
                     ('intersection(None,None)', lambda: G.intersection(None, None))):
        st, r = call(fn)
        ctx.require(st == 'ok' and r is None, '%s: %s is not None' % (sig, name))


def families(tier, seed):
    fams = []
    nv = 1 if tier == 'quick' else 3
    for ka in KINDS:
        for kb in KINDS:
            for v in range(4 if ka == kb == 'ConvexPolygon' else max(nv, 2) if ka == kb == 'Plane' else nv):
                vv = v if (tier != 'quick' or ka == kb == 'ConvexPolygon') else (KINDS.index(ka) + KINDS.index(kb)) % 3
                if tier == 'quick' and ka == kb == 'Plane':
                    vv = (0, 2)[v]       # parallel planes; crossing planes with normals at an obtuse angle (axis frame); the tilt
                    #                      templates in the oblique frame need the thorough budget
                fams.append(Family('%s-%s/v%d' % (ka, kb, vv), fam_pair, (ka, kb, vv)))
    return fams


def _twin_asymmetric():
    """mutant: intersection(HalfLine, Segment) (this argument order only) drops point results"""
    from .c01 import _wrap_public
    _wrap_public('intersection', lambda a, b, r: None if (isinstance(a, HalfLine) and isinstance(b, Segment) and isinstance(r, Point)) else r)


TWINS = {'intersection(HalfLine, Segment) loses points': (r'^HalfLine-Segment/', _twin_asymmetric)}


META = dict(
    title='intersection is total, symmetric and typed',
    level_text=('Bounded symbolic model checking of the real dispatch and handlers for all 49 ordered operand type pairs: operands from the C01-C03 '
                'templates with 1-2 real parameters; on every path the solver-explored execution must not reach NotImplementedError / "Bug detected" '
                '(reachability of those raise statements is decided by the solver), intersection(a,b), intersection(b,a) and a.intersection(b) must denote '
                'the same set (proved by z3 on the symbolic results) and the result type must be in the row of the documented table (parsed at run time '
                'from docs/source/example_operation.rst); None operands give None.'),
    level_note='exact-real semantics; one template per ordered pair in the quick tier, three in the thorough tier; correctness of the set itself is C01-C03',
    technique='symbolic execution of real code over exact reals (z3), all paths; reachability of error raises + relational comparison of the three call forms',
    bounds=dict(parameters='1-2 reals in [-3,3]', pairs='all 49 ordered pairs', templates='1 (quick) / 3 (thorough) per pair'),
    outside_claim=['positions not on the chosen slices', 'IEEE rounding'],
    assumptions=['admissibility bands as in C01-C03'],
)

"""entry point: python -m checks.main <Cxx> [--tier ...] [--replay file] [--only regex]"""
import sys, os, argparse, importlib


def main():
    ap = argparse.ArgumentParser()
    ap.add_argument('prop')
    ap.add_argument('--tier', default=os.environ.get('VERIF_TIER', 'quick'))
    ap.add_argument('--replay')
    ap.add_argument('--only')
    ap.add_argument('--jobs', type=int)
    a = ap.parse_args()
    seed = int(os.environ.get('VERIF_SEED', '0'))
    prop = a.prop.upper()
    modname = 'checks.%s' % prop.lower()
    from symgeo import shims, run
    shims.install()
    mod = importlib.import_module(modname)
    if a.replay:
        sys.exit(run.replay_file(a.replay, modname))
    meta = getattr(mod, 'META', {})
    rc = run.main_check(prop, modname, a.tier, seed,
                        level_note=meta.get('level_note', ''), bounds=meta.get('bounds', {}),
                        outside_claim=meta.get('outside_claim', []), assumptions=meta.get('assumptions', []),
                        jobs=a.jobs, only=a.only, extra_hook=getattr(mod, 'extra', None))
    sys.exit(rc)


if __name__ == '__main__':
    main()

"""helpers shared by the property harnesses: building real Geometry3D objects from reference data"""
import os, sys
from fractions import Fraction as F
import Geometry3D as G
from Geometry3D import (Point, Vector, Line, Plane, Segment, HalfLine, ConvexPolygon, ConvexPolyhedron)
from symgeo import core
from symgeo.core import And, Or, Not, Implies, Iff, Ite, near, SymNum
import refgeo as R
from refgeo import bodies as B


def num(ctx, x):
    return ctx.lib(x)


def pt(ctx, x):
    return Point(ctx.lib(x[0]), ctx.lib(x[1]), ctx.lib(x[2]))


def vec(ctx, x):
    return Vector(ctx.lib(x[0]), ctx.lib(x[1]), ctx.lib(x[2]))


def mk(ctx, r, form=0):
    """real library object for a reference object (form selects among equivalent constructor forms)"""
    k = r.kind
    if k == 'Point':
        return pt(ctx, r.p)
    if k == 'Line':
        if form == 1:
            return Line(pt(ctx, r.p), pt(ctx, R.vadd(r.p, r.d)))
        return Line(pt(ctx, r.p), vec(ctx, r.d))
    if k == 'HalfLine':
        if form == 1:
            return HalfLine(pt(ctx, r.p), pt(ctx, R.vadd(r.p, r.d)))
        return HalfLine(pt(ctx, r.p), vec(ctx, r.d))
    if k == 'Segment':
        if form == 1:
            return Segment(pt(ctx, r.a), vec(ctx, r.d))
        return Segment(pt(ctx, r.a), pt(ctx, r.b))
    if k == 'Plane':
        if form == 1:        # three points (needs a concrete normal to pick two in-plane directions)
            from refgeo.hrep import _perp_pair
            a, b = _perp_pair(r.n)
            return Plane(pt(ctx, r.p), pt(ctx, R.vadd(r.p, a)), pt(ctx, R.vadd(r.p, b)))
        if form == 2:        # general form a x + b y + c z = d with the (non-unit) normal as given
            return Plane(ctx.lib(r.n[0]), ctx.lib(r.n[1]), ctx.lib(r.n[2]), ctx.lib(R.dot(r.n, r.p)))
        return Plane(pt(ctx, r.p), vec(ctx, r.n))
    if k == 'ConvexPolygon':
        return ConvexPolygon(tuple(pt(ctx, v) for v in r.v))
    if k == 'ConvexPolyhedron':
        return ConvexPolyhedron(tuple(ConvexPolygon(tuple(pt(ctx, v) for v in f)) for f in r.faces))
    raise TypeError(k)


def coords(p):
    """observed coordinates of a library Point / Vector"""
    t = (p.x, p.y, p.z) if isinstance(p, Point) else (p[0], p[1], p[2])
    return tuple(F(c) if isinstance(c, float) else c for c in t)


def kind_of(x):
    return 'None' if x is None else type(x).__name__


def call(fn, *a):
    """run library code; returns ('ok', value) or ('raise', exception).  Only Exception is caught:
    engine control flow is BaseException"""
    try:
        return 'ok', fn(*a)
    except Exception as e:
        return 'raise', e


def exc_sig(e):
    import traceback
    tb = traceback.extract_tb(e.__traceback__)
    site = [f for f in tb if '/Geometry3D/' in f.filename]
    where = '%s:%s' % (os.path.basename(site[-1].filename), site[-1].name) if site else '?'
    return '%s@%s' % (type(e).__name__, where)


LATTICE_DIRS = [(1, 0, 0), (0, 1, 0), (0, 0, 1), (1, 1, 0), (1, 0, 1), (0, 1, 1), (1, -1, 0), (1, 0, -1), (0, 1, -1),
                (1, 1, 1), (1, 1, -1), (1, -1, 1), (-1, 1, 1)]

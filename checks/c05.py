"""C05 -- membership (`in`) agrees with exact geometric containment."""
from .common import *

PROP = 'C05'
BUDGET = {'quick': 90, 'thorough': 600}


def _container(kind, fr_name, perm=None, shape=None):
    e1, e2, e3 = B.frame_vectors(fr_name, perm)
    A = (F(1, 2), F(-1, 4), F(1))
    if kind == 'Line':
        return R.RLine(A, e1), (A, e1, e2, e3)
    if kind == 'HalfLine':
        return R.RHalfLine(A, e1), (A, e1, e2, e3)
    if kind == 'Segment':
        return R.RSegment(A, R.vadd(A, R.vscale(2, e1))), (A, e1, e2, e3)
    if kind == 'Plane':
        return R.RPlane(A, R.cross(e1, e2)), (A, e1, e2, R.cross(e1, e2))
    if kind == 'ConvexPolygon':
        P = B.polygon(shape or 'penta', fr_name, perm=perm)
        e = R.vsub(P.verts[1], P.verts[0])
        return B.rpoly(P), (P.verts[0], e, R.cross(P.n, e), P.n)
    if kind == 'ConvexPolyhedron':
        K = B.body(shape or 'cube', fr_name, perm=perm)
        f0 = K.faces[0]
        e = R.vsub(f0[1], f0[0])
        n = K.normals[0]
        return B.rbody(K), (f0[0], e, R.cross(n, e), n)
    raise TypeError(kind)


def fam_point(ctx, kind, fr_name, perm, shape, nparams, form):
    S, (A, a, b, c) = _container(kind, fr_name, perm, shape)
    t = ctx.param('t')
    u = ctx.param('u')
    # keep the scale of the offsets ~1: normalise the in-plane / normal vectors of bodies roughly
    x = R.affine(A, (t, a), (u, b))
    if nparams == 3:
        v = ctx.param('v')
        x = R.affine(x, (v, c))
    R.band_point(ctx, S, x)
    truth = R.contains(S, x)
    obj = mk(ctx, S, form)
    st, got = call(lambda: pt(ctx, x) in obj)
    if st == 'raise':
        ctx.outcome('raise')
        ctx.fail('C05:Point in %s raises %s' % (kind, exc_sig(got)), repr(got))
    got = bool(got)
    ctx.outcome('in' if got else 'out')
    ctx.require(Iff(truth, got), 'C05:Point in %s wrong (library says %s)' % (kind, got))


# composite candidates: candidate is a 1-D object placed relative to the container's frame
def fam_composite(ctx, ckind, kind, fr_name, perm, mode):
    S, (A, a, b, c) = _container(kind, fr_name, perm, None)
    t = ctx.param('t')
    u = ctx.param('u')
    if kind == 'Plane':
        b = c                    # for a plane the second in-frame direction would stay inside it
    if mode == 'slide':          # along the first frame direction, lifted by u along the second
        p = R.affine(A, (t, a), (u, b))
        d = a
    elif mode == 'tilt':         # through A + t a, direction a + u b  (u = 0: inside the carrier)
        p = R.affine(A, (t, a))
        d = R.affine(a, (u, b))
    else:                        # 'lift': parallel copy displaced along the third direction
        p = R.affine(A, (t, a), (u, c))
        d = a
    if ckind == 'Segment':
        cand = R.RSegment(p, R.vadd(p, d))
        gens = [cand.a, cand.b]
        truth = None
    elif ckind == 'HalfLine':
        cand = R.RHalfLine(p, d)
    else:
        cand = R.RLine(p, d)
    # exact truth: all generators inside (convexity); for unbounded candidates the far direction too
    if ckind == 'Segment':
        for g in gens:
            R.band_point(ctx, S, g)
        truth = And(*[R.contains(S, g) for g in gens])
    else:
        R.band_point(ctx, S, p)
        far = R.vadd(p, d)
        R.band_point(ctx, S, far)
        base = And(R.contains(S, p), R.contains(S, far))
        if kind == 'HalfLine' and ckind == 'HalfLine':
            truth = And(base, R.dot(d, S.d) > 0)
        elif kind == 'HalfLine' and ckind == 'Line':
            truth = False
        elif kind in ('Line', 'Plane'):
            truth = base
        else:
            truth = False
    obj = mk(ctx, S)
    cobj = mk(ctx, cand)
    st, got = call(lambda: cobj in obj)
    if st == 'raise':
        ctx.outcome('raise')
        ctx.fail('C05:%s in %s raises %s' % (ckind, kind, exc_sig(got)), repr(got))
    if not isinstance(got, (bool, core.SymBool)):
        ctx.outcome('nonbool')
        ctx.fail('C05:%s in %s returns non-bool %s' % (ckind, kind, type(got).__name__))
    got = bool(got)
    ctx.outcome('in' if got else 'out')
    ctx.require(Iff(truth, got), 'C05:%s in %s wrong (library says %s)' % (ckind, kind, got))


def fam_polygon_in(ctx, kind, fr_name, perm, mode):
    """ConvexPolygon in Plane / ConvexPolyhedron: a catalogue polygon translated along a direction"""
    t = ctx.param('t')
    if kind == 'Plane':
        P = B.polygon('quad', fr_name, perm=perm)
        e = R.vsub(P.verts[1], P.verts[0])
        flip = mode.endswith('-flip')       # plane given with the opposite (and rescaled) normal: the same point set
        w = P.n if mode.startswith('lift') else e
        S = R.RPlane(P.verts[2], R.vscale(F(-3, 2), P.n) if flip else P.n)
        cand = B.rpoly(P, R.vscale(t, w))
        q = R.dot(P.n, R.vscale(t, w))
        ctx.assume(Or(q == 0, q * q >= R.MARGIN ** 2 * R.norm2(P.n)))
        truth = (q == 0)
    else:
        K = B.body('cube', fr_name, perm=perm)
        f0 = K.faces[0]
        n = K.normals[0]
        e = R.vsub(f0[1], f0[0])
        # a small polygon inside face 0's plane region, moved along the inward normal / along the edge
        c0 = tuple(sum(v[i] for v in f0) / len(f0) for i in range(3))
        e2 = R.cross(n, e)
        k = F(1, 4)
        nn = R.norm2(n)
        pts = [R.affine(c0, (k, e)), R.affine(c0, (-k, e)), R.affine(c0, (k / 4, e2))]
        w = n if mode.startswith('lift') else e
        S = B.rbody(K)
        off = R.vscale(t, w)
        cand = R.RPolygon([R.vadd(p, off) for p in pts])
        for g in cand.v:
            R.band_point(ctx, S, g)
        truth = And(*[R.contains(S, g) for g in cand.v])
    obj = mk(ctx, S)
    cobj = mk(ctx, cand)
    st, got = call(lambda: cobj in obj)
    if st == 'raise':
        ctx.outcome('raise')
        ctx.fail('C05:ConvexPolygon in %s raises %s' % (kind, exc_sig(got)), repr(got))
    got = bool(got)
    ctx.outcome('in' if got else 'out')
    ctx.require(Iff(truth, got), 'C05:ConvexPolygon in %s wrong (library says %s)' % (kind, got))


CORE_FRAMES = ['axis', 'planar', 'oblique', 'pyth3']
ALL_FRAMES = ['axis', 'planar', 'oblique', 'pyth3', 'pyth7', 'shear']


def families(tier, seed):
    import random
    rng = random.Random(seed)
    fams = []
    frames = CORE_FRAMES if tier == 'quick' else ALL_FRAMES + [B.random_frame_name(rng), B.random_frame_name(rng)]
    perms = [None] if tier == 'quick' else [None] + rng.sample(range(48), 3)
    for fr_name in frames:
        for perm in perms:
            tag = '%s%s' % (fr_name, '' if perm is None else '#%d' % perm)
            for kind in ('Line', 'HalfLine', 'Segment'):
                for form in ((0,) if tier == 'quick' and fr_name != 'axis' else (0, 1)):
                    fams.append(Family('point_in/%s/%s/f%d' % (kind, tag, form), fam_point, (kind, fr_name, perm, None, 2, form),
                                       must_reach=('in', 'out')))
            fams.append(Family('point_in/Plane/%s' % tag, fam_point, ('Plane', fr_name, perm, None, 3, 0), must_reach=('in', 'out')))
            # the same plane built from three points / from the general form with a non-unit coefficient vector
            for form in ((1, 2) if (tier != 'quick' or fr_name in ('axis', 'pyth3')) else ()):
                fams.append(Family('point_in/Plane/%s/f%d' % (tag, form), fam_point, ('Plane', fr_name, perm, None, 3, form), must_reach=('in', 'out')))
            shapes2 = ['tri', 'penta'] if tier == 'quick' else list(B.UNIT_POLYS)
            for sh in shapes2:
                fams.append(Family('point_in/ConvexPolygon/%s/%s' % (sh, tag), fam_point, ('ConvexPolygon', fr_name, perm, sh, 3, 0),
                                   must_reach=('in', 'out')))
            shapes3 = ['tetra', 'cube'] if tier == 'quick' else list(B.UNIT_SHAPES)
            for sh in shapes3:
                fams.append(Family('point_in/ConvexPolyhedron/%s/%s' % (sh, tag), fam_point,
                                   ('ConvexPolyhedron', fr_name, perm, sh, 3, 0), must_reach=('in', 'out')))
            for ckind, kind in (('Segment', 'Line'), ('Segment', 'HalfLine'), ('Segment', 'Segment'), ('Segment', 'Plane'),
                                ('Segment', 'ConvexPolygon'), ('Segment', 'ConvexPolyhedron'),
                                ('HalfLine', 'Line'), ('HalfLine', 'HalfLine'), ('HalfLine', 'Plane'), ('Line', 'Plane')):
                modes = ('slide', 'tilt') if tier == 'quick' else ('slide', 'tilt', 'lift')
                for mode in modes:
                    fams.append(Family('%s_in/%s/%s/%s' % (ckind, kind, mode, tag), fam_composite, (ckind, kind, fr_name, perm, mode),
                                       must_reach=('in', 'out') if mode != 'lift' else ('out',)))
            for kind in ('Plane', 'ConvexPolyhedron'):
                for mode in ('lift', 'slide') + (('lift-flip', 'slide-flip') if kind == 'Plane' else ()):
                    fams.append(Family('ConvexPolygon_in/%s/%s/%s' % (kind, mode, tag), fam_polygon_in, (kind, fr_name, perm, mode),
                                       must_reach=('in',)))
    return fams


from symgeo.run import Family  # noqa: E402

def _twin_segment_upper():
    """mutant: Segment.__contains__ forgets the upper bound of the relative length"""
    import Geometry3D.geometry.segment as sg
    from Geometry3D.utils.constant import get_eps

    def contains(self, other):
        if isinstance(other, Point):
            r1 = other in self.line
            v = Vector(self.start_point, self.end_point)
            v1 = Vector(self.start_point, other)
            if v1.length() < get_eps():
                return True
            rel = v1 * v / (v.length()) / (v.length())
            return r1 and (rel > -get_eps())
        return (other.start_point in self) and (other.end_point in self)
    sg.Segment.__contains__ = contains


TWINS = {'Segment.__contains__ without upper bound': (r'^point_in/Segment/axis/f0$', _twin_segment_upper)}


META = dict(
    title='membership agrees with exact containment',
    level_text=('Bounded symbolic model checking of the real `__contains__`/`in_` code: the candidate is an affine function of 2-3 real '
                'parameters over a concrete lattice frame; every path of the library is explored (solver-decided branches) and on every '
                'path the solver proves library answer <=> exact containment formula for ALL real parameter values in the box.'),
    level_note=('exact-real semantics of the executed code (IEEE rounding not modelled; every path witness is replayed on the un-shimmed '
                'library with floats); frames are a finite catalogue; z3 trusted for unsat'),
    technique='symbolic execution of real code over exact reals (z3 QF_NRA), all paths, per-path witness replay',
    bounds=dict(parameters='2-3 reals in [-3,3]', frames='4 (quick) / 6 + signed permutations (thorough)',
                bodies='polygons 3-6 vertices, polyhedra 4-8 vertices'),
    outside_claim=['poses outside the catalogue', 'more than 3 simultaneous degrees of freedom', 'IEEE rounding',
                   'inputs inside the tolerance band (excluded by the property)'],
    assumptions=['every incidence of the candidate with the container is exact or off by a relative margin >= 1e-3 (assumed before the library runs)',
                 'shims: float() is the identity on symbolic reals, sqrt is the exact real root'],
)

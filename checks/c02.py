"""C02 -- flat primitive vs convex polygon / polyhedron intersection is exact."""
from .common import *
from refgeo import denote as D
from refgeo import hrep as H
from symgeo.run import Family

PROP = 'C02'
BUDGET = {'quick': 80, 'thorough': 900}
ONE = ('Line', 'HalfLine', 'Segment')


def _one(kind, p, d):
    if kind == 'Line':
        return R.RLine(p, d)
    if kind == 'HalfLine':
        return R.RHalfLine(p, d)
    return R.RSegment(p, R.vadd(p, d))


def _mid(a, b):
    return tuple((x + y) / 2 for x, y in zip(a, b))


def setup_body(shape, fr_name, perm):
    K = B.body(shape, fr_name, perm=perm)
    f0 = K.faces[0]
    n0 = K.normals[0]
    e = R.vsub(f0[1], f0[0])
    c0 = tuple(sum(v[i] for v in f0) / len(f0) for i in range(3))
    diag = R.vsub(K.verts[-1], K.verts[0])
    dirs = dict(edge=e, normal=n0, inplane=R.cross(n0, e), diag=diag, generic=R.affine(e, (F(1, 2), n0), (F(1, 4), R.cross(n0, e))),
                lattice=R.vadd(e, n0), negnormal=R.vscale(F(-1), n0))
    pts = dict(vertex=f0[0], facecentre=c0, centre=K.centre, edgemid=_mid(f0[0], f0[1]))
    return K, B.rbody(K), dirs, pts


def setup_poly(shape, fr_name, perm):
    P = B.polygon(shape, fr_name, perm=perm)
    e = R.vsub(P.verts[1], P.verts[0])
    diag = R.vsub(P.verts[2], P.verts[0])
    dirs = dict(edge=e, normal=P.n, inplane=R.cross(P.n, e), diag=diag, generic=R.affine(e, (F(1, 3), P.n), (F(1, 2), R.cross(P.n, e))),
                lattice=R.vadd(e, P.n), negnormal=R.vscale(F(-1), P.n),
                skewin=R.affine(e, (F(1, 2), R.cross(P.n, e))))
    pts = dict(vertex=P.verts[0], centre=P.centre, edgemid=_mid(P.verts[0], P.verts[1]), facecentre=P.centre)
    return P, B.rpoly(P), dirs, pts


def _scale_to(v, target=F(2)):
    """rescale a concrete vector to squared length ~ target^2 using a rational factor (keeps the direction exact)"""
    n2 = R.norm2(v)
    k = R._fsqrt(F(target * target) / n2) if n2 else F(1)
    k = F(k).limit_denominator(8) or F(1, 8)
    return R.vscale(k, v)


def fam_flat_body(ctx, fkind, bkind, shape, fr_name, perm, through, dname, wname, swap, method, ufix=None):
    Kc, K, dirs, pts = (setup_body if bkind == 'ConvexPolyhedron' else setup_poly)(shape, fr_name, perm)
    P0 = pts[through]
    d = _scale_to(dirs[dname.lstrip('-~')], F(3) if '~' not in dname else F(1, 4))      # '~': a short direction vector (|d| ~ 1/4)
    if dname.startswith('-'):            # the same carrier traversed in the opposite sense
        d = R.vscale(F(-1), d)
    w = _scale_to(dirs[wname], F(1)) if wname in dirs else None
    t = ctx.param('t')
    if fkind == 'Point':
        u = ctx.param('u') if ufix is None else F(ufix)
        f = R.RPoint(R.affine(P0, (t, w), (u, d)))
    elif fkind == 'Plane':
        # plane with normal d through P0 + t*d~ (offset family); wname == 'tilt' rotates the normal instead
        w = None
        if wname == 'tilt':
            f = R.RPlane(P0, R.affine(d, (t, _scale_to(dirs['inplane'], F(1)))))
        else:
            f = R.RPlane(R.affine(P0, (t, d)), d)
    elif fkind == 'Line':
        f = _one(fkind, R.affine(P0, (t, w)), d)
    else:
        u = ctx.param('u') if ufix is None else F(ufix)
        f = _one(fkind, R.affine(P0, (t, w), (-u, d)), d)      # own parameter u at the carrier's nearest pass of P0
    A, Bq = (K, f) if swap else (f, K)
    tilt = (fkind == 'Plane' and wname == 'tilt')
    if tilt:
        R.band_flat_body(ctx, f, K, Kc)
        y, y_in = D.declare_probe(ctx, A, Bq)
    else:
        orc = H.VertexOracle(f, K)
        orc.band(ctx)
    a, b = mk(ctx, A), mk(ctx, Bq)
    sig = 'C02:intersection(%s,%s)' % (A.kind, Bq.kind)
    if method and A.kind != 'Point':
        st, r = call(lambda: a.intersection(b))
    else:
        st, r = call(lambda: G.intersection(a, b))
    if st == 'raise':
        ctx.outcome('raise')
        ctx.fail(sig + ' raises %s' % exc_sig(r), repr(r))
    ctx.outcome(kind_of(r))
    if tilt:
        D.check_result(ctx, A, Bq, r, y, y_in, sig)
    else:
        orc.check(ctx, r, sig)
    # exported helpers on the same inputs
    if fkind == 'Segment':
        seg, body = (b, a) if swap else (a, b)
        fn = G.get_segment_convexpolyhedron_intersection_point_set if bkind == 'ConvexPolyhedron' else G.get_segment_convexpolygon_intersection_point_set
        st, ps = call(lambda: fn(seg, body))
        if st == 'raise':
            ctx.fail('C02:%s raises %s' % (fn.__name__, exc_sig(ps)), repr(ps))
        for p in ps:
            q = (p.x, p.y, p.z)
            ctx.require(And(D.near_contains(f, q), D.near_contains(K, q)), 'C02:%s returns a point outside the segment or the body' % fn.__name__)
        if len(ps) >= 2:
            st, s2 = call(lambda: G.get_segment_from_point_list(list(ps)))
            if st == 'raise':
                ctx.fail('C02:get_segment_from_point_list raises %s on collinear points' % exc_sig(s2), repr(s2))
            for p in ps:
                ctx.require(D.near_contains(D.as_ref(s2), (p.x, p.y, p.z)), 'C02:get_segment_from_point_list does not span its points')
            ctx.require(And(Or(*[R.vnear(D.as_ref(s2).a, (p.x, p.y, p.z)) for p in ps]), Or(*[R.vnear(D.as_ref(s2).b, (p.x, p.y, p.z)) for p in ps])),
                        'C02:get_segment_from_point_list endpoints are not among its points')


def fam_pivot(ctx, fkind, bkind, shape, fr_name, vi, ufix, swap):
    """a 1-D flat rotating about a vertex of the body: every parameter value (hence every path witness that is
    replayed with floats) has the flat passing exactly through the vertex, in a direction that is not special"""
    Kc, K, dirs, pts = (setup_body if bkind == 'ConvexPolyhedron' else setup_poly)(shape, fr_name, None)
    P0 = Kc.verts[vi % len(Kc.verts)]
    centre = Kc.centre
    n = dirs['normal']
    d0 = R.vadd(R.vsub(centre, P0), R.vscale(F(1, 2), _scale_to(n, F(2))))      # from the vertex into / across the body
    w = _scale_to(dirs['edge'], F(1))
    t = ctx.param('t', -2, 2)
    d = R.affine(d0, (t, w))
    f = _one(fkind, R.affine(P0, (-F(ufix), d)), d)
    A, Bq = (K, f) if swap else (f, K)
    R.band_flat_body(ctx, f, K, Kc)
    y, y_in = D.declare_probe(ctx, A, Bq)
    a, b = mk(ctx, A), mk(ctx, Bq)
    sig = 'C02:intersection(%s,%s)' % (A.kind, Bq.kind)
    st, r = call(lambda: G.intersection(a, b))
    if st == 'raise':
        ctx.outcome('raise')
        ctx.fail(sig + ' raises %s' % exc_sig(r), repr(r))
    ctx.outcome(kind_of(r))
    D.check_result(ctx, A, Bq, r, y, y_in, sig)


EXTRA_WITNESSES = {'quick': 6, 'thorough': 12}


def families(tier, seed):
    import random
    rng = random.Random(seed)
    fams = []
    if tier == 'quick':
        bodies = [('ConvexPolyhedron', 'cube', 'axis'), ('ConvexPolyhedron', 'tetra', 'oblique'), ('ConvexPolygon', 'quad', 'axis'),
                  ('ConvexPolygon', 'tri', 'pyth3')]
    else:
        bodies = [('ConvexPolyhedron', s, f) for s in ('cube', 'tetra', 'prism', 'pyramid', 'octa') for f in ('axis', 'oblique', 'pyth3')] + \
                 [('ConvexPolygon', s, f) for s in ('tri', 'quad', 'penta', 'hexa') for f in ('axis', 'planar', 'pyth3')]
    # (through, direction, sweep) triples: which degenerate positions the sweep passes
    tmpl3 = [('vertex', 'edge', 'inplane'), ('vertex', 'diag', 'inplane'), ('facecentre', 'normal', 'edge'), ('centre', 'generic', 'inplane'),
             ('edgemid', 'inplane', 'normal')]
    tmpl2 = [('vertex', 'edge', 'inplane'), ('vertex', 'skewin', 'inplane'), ('centre', 'normal', 'edge'), ('edgemid', 'generic', 'edge'),
             ('centre', 'edge', 'normal')]
    ptmpl = [('vertex', 'normal', 'offset'), ('centre', 'diag', 'offset'), ('vertex', 'edge', 'offset'),
             ('centre', 'lattice' if tier == 'quick' else 'generic', 'offset'), ('edgemid', 'normal', 'tilt'),
             ('edgemid', 'negnormal', 'offset')]       # coplanar at t = 0 with the normal opposite to the polygon's / face's own
    for bi, (bkind, shape, fr_name) in enumerate(bodies):
        perm = None if tier == 'quick' else rng.choice([None, rng.randrange(48)])
        tag = '%s-%s@%s%s' % (bkind[6:], shape, fr_name, '' if perm is None else '#%d' % perm)
        tm = tmpl3 if bkind == 'ConvexPolyhedron' else tmpl2
        for fkind in ('Point', 'Line', 'HalfLine', 'Segment'):
            for ti, (through, dname, wname) in enumerate(tm):
                if tier == 'quick' and fkind == 'Point' and ti > 1:
                    continue
                swap = (ti + bi) % 2 == 1
                method = (ti % 3 == 2)
                # quick tier: bounded flats slide with a fixed own parameter (0: endpoint passes through the feature,
                # 1/2: interior passes); thorough tier adds the 2-parameter version
                if fkind in ('HalfLine', 'Segment'):
                    ufs = [F(0) if ti % 2 == 0 else F(1, 2)] if tier == 'quick' else [F(0), F(1, 2), F(1), None]
                    if tier == 'thorough' and ti not in (0, 2):
                        ufs = [F(0), F(1, 2)]
                elif fkind == 'Point':
                    ufs = [None]
                else:
                    ufs = [None]
                # half-lines (thorough: segments, lines too) also in the opposite sense along the same carrier
                senses = [dname] + (['-' + dname] if (fkind == 'HalfLine' and (tier != 'quick' or ti in (0, 2))) or (tier != 'quick' and fkind != 'Point' and ti == 1) else [])
                if fkind == 'HalfLine' and (tier != 'quick' or ti in (1, 3)):
                    senses.append('~' + dname)       # the same half-line given by a short direction vector
                for dn in senses:
                    for uf in ufs:
                        fams.append(Family('%s/%s/%s-%s-%s/%s%s%s' % (fkind, tag, through, dn, wname, 'swap' if swap else 'fwd', '/m' if method else '',
                                                                     '' if uf is None else '/u=%s' % uf),
                                           fam_flat_body, (fkind, bkind, shape, fr_name, perm, through, dn, wname, swap, method, uf),
                                           budget_s=None if uf is not None or fkind in ('Point', 'Line') else 600))
        for ti, (through, dname, wname) in enumerate(ptmpl):
            if bkind == 'ConvexPolygon' and dname == 'diag':
                continue
            swap = (ti + bi) % 2 == 0
            fams.append(Family('Plane/%s/%s-%s-%s/%s' % (tag, through, dname, wname, 'swap' if swap else 'fwd'),
                               fam_flat_body, ('Plane', bkind, shape, fr_name, perm, through, dname, wname, swap, False)))
    # flats through a vertex in non-special directions (float rounding of the hit point matters here)
    piv = [('ConvexPolygon', 'tri', 'oblique'), ('ConvexPolygon', 'quad', 'pyth3'), ('ConvexPolyhedron', 'tetra', 'oblique')]
    if tier == 'thorough':
        piv += [('ConvexPolygon', 'penta', 'oblique'), ('ConvexPolygon', 'hexa', 'pyth3'), ('ConvexPolyhedron', 'cube', 'oblique'),
                ('ConvexPolyhedron', 'pyramid', 'pyth3'), ('ConvexPolyhedron', 'octa', 'oblique')]
    for bi, (bkind, shape, fr_name) in enumerate(piv):
        for fkind, uf in (('Line', F(3, 4)), ('Segment', F(1, 2)), ('HalfLine', F(3, 4))):
            for vi in ((bi, bi + 1) if tier == 'quick' else range(4)):
                swap = (vi + bi) % 2 == 1
                fams.append(Family('pivot/%s/%s-%s@%s/vertex%d/%s' % (fkind, bkind[6:], shape, fr_name, vi, 'swap' if swap else 'fwd'), fam_pivot,
                                   (fkind, bkind, shape, fr_name, vi, uf, swap), budget_s=None))
    return fams


def _twin_line_polyhedron_single_hit():
    """mutant: a line that meets a polyhedron in a Segment has the segment cut in half"""
    from .c01 import _wrap_public

    def post(a, b, r):
        if isinstance(r, Segment) and {type(a), type(b)} == {Line, ConvexPolyhedron}:
            m = Point((r.start_point.x + r.end_point.x) / 2, (r.start_point.y + r.end_point.y) / 2, (r.start_point.z + r.end_point.z) / 2)
            return Segment(r.start_point, m)
        return r
    _wrap_public('intersection', post)


TWINS = {'Line x polyhedron chord cut in half': (r'^Line/Polyhedron-cube@axis/vertex-edge-inplane/', _twin_line_polyhedron_single_hit)}


META = dict(
    title='flat x convex body intersection is exact',
    level_text=('Bounded symbolic model checking of the real intersection() code for Point/Line/HalfLine/Segment/Plane against concrete lattice '
                'polygons and polyhedra in both argument orders: the flat sweeps across the body along a line through a vertex / edge midpoint / '
                'face centre / centre with 1-2 real parameters, so passing through vertices, along edges, inside faces, tangent and '
                'inside/outside positions are parameter values the solver finds.  On every path z3 proves result == f n K denotationally '
                '(vertices of the result in both operands; no probe point of f n K outside the result) and checks the exported helper functions.'),
    level_note='exact-real semantics of the executed code; witnesses replayed with floats on the un-shimmed library; finite catalogue of bodies and sweeps',
    technique='symbolic execution of real code over exact reals (z3 QF_NRA), all paths; denotational oracle with a universally quantified probe point',
    bounds=dict(parameters='1-2 reals in [-3,3] (+1-3 probe reals)', bodies='quick: cube, tetra, quad, triangle; thorough: 5 polyhedra x 3 frames, 4 polygons x 3 frames',
                vertices='<= 8 per body'),
    outside_claim=['symbolic body shape', 'more than 8 vertices', 'poses outside the catalogue', 'IEEE rounding'],
    assumptions=['band_flat_body: flat vs every vertex, edge and face plane of the body is exact or off by >= 1e-3', 'hash model for the point sets built inside intersection'],
)

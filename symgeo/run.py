"""symgeo.run -- families, path exploration, replay, evidence, known findings, CLI plumbing."""
import os, sys, time, json, traceback, hashlib, re, multiprocessing as mp
from fractions import Fraction
import z3
from . import core, shims
from .core import (Engine, SymNum, SymBool, PathAbort, Infeasible, Inconclusive, Budget, Unsupported, Inadmissible,
                   And, Or, Not)

VERIF = os.path.dirname(os.path.dirname(os.path.abspath(__file__)))
# evidence / replay files of scratch runs against a mutated copy of the repository (bin/seedregress) go elsewhere
OUTDIR = os.environ.get('VERIF_OUT', VERIF)
MARGIN = Fraction(1, 1000)      # the properties' relative admissibility margin
TOL = Fraction(1, 10 ** 7)      # absolute tolerance when comparing coordinates with the oracle


class Violation(PathAbort):
    def __init__(self, sig, detail=''):
        self.sig, self.detail = sig, detail


class Family:
    """a parametrised template: fn(ctx, *args) runs the oracle and the real library on inputs that
    are affine functions of ctx.param(...) values and states the property through ctx.require"""

    def __init__(self, name, fn, args=(), must_reach=(), budget_s=None, tags=(), timeout_ms=None):
        self.timeout_ms = timeout_ms
        self.name, self.fn, self.args = name, fn, tuple(args)
        self.must_reach = tuple(must_reach)
        self.budget_s = budget_s
        self.tags = tuple(tags)

    @property
    def fid(self):
        return self.name


# ----------------------------------------------------------------------------- contexts
class SymCtx:
    mode = 'sym'

    def __init__(self, eng):
        self.eng = eng
        self.outcomes = []
        self.pinfo = {}

    def param(self, name, lo=-3, hi=3):
        self.pinfo[name] = (lo, hi)
        return self.eng.param(name, lo, hi)

    def choice(self, name, values):
        """finite-domain real parameter (kept in the reals: no integer sorts in path conditions)"""
        v = self.eng.param(name, min(values), max(values))
        if name not in self.pinfo:
            self.pinfo[name] = ('choice', tuple(values))
            self.eng.assume(Or(*[v == Fraction(c) for c in values]))
        return v

    def lib(self, x):
        return x

    def fp_lattice(self, name, lo, hi, den=4):
        """binary64 value k/den, k an integer solver variable (bit-precise FP64 domain); returns (value, k)"""
        from . import fp64
        self.pinfo[name] = ('lattice', lo, hi, den)
        v, z = fp64.lattice(self.eng, name, lo, hi, den)
        return v, z

    def assume(self, cond):
        if isinstance(cond, bool):
            if not cond:
                raise Infeasible()
            return
        self.eng.assume(cond)

    def band(self, q, scale=1):
        """admissibility: the incidence quantity q is exactly 0 or at least MARGIN*scale away"""
        if not isinstance(q, SymNum):
            if q != 0 and abs(q) < MARGIN * scale:
                raise Infeasible()
            return
        m = MARGIN * Fraction(scale)
        self.eng.assume(Or(q == 0, q >= m, q <= -m))

    def outcome(self, label):
        self.outcomes.append(label)

    def require(self, cond, sig, detail=''):
        if isinstance(cond, bool):
            if cond:
                return
            self.eng.get_model()
            self._viol_model = self.eng.model
            self._viol_cond = None
            raise Violation(sig, detail)
        r = self.eng.check(z3.Not(cond.z))
        if r == 'unsat':
            return
        if r == 'sat' and self.eng._last_model is not None:
            self._viol_model = self.eng._last_model
            self._viol_cond = z3.Not(cond.z)
            raise Violation(sig, detail)
        raise Inconclusive('property query undecided: %s' % sig)

    def fail(self, sig, detail=''):
        self.require(False, sig, detail)

    def holds(self, cond):
        """is cond implied by the path condition?  True / False(not implied) ; raises if undecided"""
        if isinstance(cond, bool):
            return cond
        r = self.eng.check(z3.Not(cond.z))
        if r == 'unsat':
            return True
        if r == 'sat':
            return False
        raise Inconclusive('implication undecided')

    def values(self, model):
        out = {}
        for name, vid in self.eng.params.items():
            v = model.eval(self.eng.vars[vid]['z'], model_completion=True)
            if self.eng.vars[vid]['kind'] == 'bv':
                out[name] = Fraction(v.as_signed_long())
                continue
            out[name] = _frac(v)
        return out


class ConcCtx:
    mode = 'conc'

    def __init__(self, values):
        self.vals = {k: Fraction(v) for k, v in values.items()}
        self.outcomes = []
        self.violations = []

    def param(self, name, lo=-3, hi=3):
        v = self.vals[name]
        if (lo is not None and v < lo) or (hi is not None and v > hi):
            raise Inadmissible('parameter %s outside its box' % name)
        return v

    def choice(self, name, values):
        v = self.vals[name]
        if v not in [Fraction(c) for c in values]:
            raise Inadmissible('parameter %s outside its domain' % name)
        return v

    def lib(self, x):
        if isinstance(x, Fraction):
            return float(x)
        return x

    def fp_lattice(self, name, lo, hi, den=4):
        k = self.vals[name]
        if k.denominator != 1 or not (lo <= k <= hi):
            raise Inadmissible('lattice parameter %s' % name)
        return float(k) / den, int(k)

    def assume(self, cond):
        if not cond:
            raise Inadmissible('assumption violated')

    def band(self, q, scale=1):
        if q != 0 and abs(q) < MARGIN * scale:
            raise Inadmissible('inside tolerance band')

    def outcome(self, label):
        self.outcomes.append(label)

    def require(self, cond, sig, detail=''):
        if not cond:
            self.violations.append((sig, detail))
            raise Violation(sig, detail)

    def fail(self, sig, detail=''):
        self.require(False, sig, detail)

    def holds(self, cond):
        return bool(cond)


def _frac(v):
    v = z3.simplify(v)
    if z3.is_rational_value(v):
        return Fraction(v.numerator_as_long(), v.denominator_as_long())
    if z3.is_algebraic_value(v):
        a = v.approx(40)
        return Fraction(a.numerator_as_long(), a.denominator_as_long())
    raise Inconclusive('cannot read model value %s' % v)


# ----------------------------------------------------------------------------- concrete replay
def _run_concrete_once(fam, values):
    core.set_engine(None)
    ctx = ConcCtx(values)
    del shims.BOUNDARY_HITS[:]
    try:
        fam.fn(ctx, *fam.args)
        st = 'ok'
    except Violation:
        st = 'violation'
    except Inadmissible as e:
        st = 'inadmissible'
    except Infeasible:
        st = 'inadmissible'
    except Unsupported as e:
        st = 'unsupported: %s' % e
    return dict(status=st, outcomes=ctx.outcomes, violations=ctx.violations), list(shims.BOUNDARY_HITS)


def run_concrete(fam, values):
    """run the family on concrete parameter values against the real, un-shimmed behaviour.
    returns dict(status, outcomes, violations).
    The properties admit a case only if no hashed quantity lies within float noise (5e-13) of a decimal rounding boundary
    of the hash.  A violating run in which the library rounded such a quantity is repeated with every boundary-near value
    snapped consistently below, then above, the boundary: it counts as a violation only if it violates both ways (i.e. it
    does not depend on which side the noise falls); otherwise the case is inadmissible."""
    res, hits = _run_concrete_once(fam, values)
    if res['status'] == 'violation' and hits:
        try:
            for mode in ('down', 'up'):
                shims.BOUNDARY_MODE[0] = mode
                r2, _ = _run_concrete_once(fam, values)
                if r2['status'] != 'violation':
                    res = dict(res, status='inadmissible', note='hashed quantity at a rounding boundary: %r' % (hits[:2],))
                    break
        finally:
            shims.BOUNDARY_MODE[0] = None
    return res


def _nice_values(eng, ctx, model, extra_z=None):
    """try to move the witness onto the quarter lattice (then onto short rationals) while staying on the
    violating path; fall back to the raw model values"""
    vals = ctx.values(model)
    base = list(eng.pc) + ([extra_z] if extra_z is not None else [])
    names = list(vals)
    fixed = {}
    for den in (4, 64):
        ok = True
        s = z3.Solver()
        s.set('timeout', 2000)
        for c in base:
            s.add(c)
        cur = {}
        for n in names:
            z = eng.vars[eng.params[n]]['z']
            cand = Fraction(round(vals[n] * den), den)
            s.push()
            s.add(z == core._q(cand))
            if str(s.check()) == 'sat':
                cur[n] = cand
            else:
                s.pop()
                s.push()
                ok = False
                cur[n] = None
        if ok:
            return cur
        # partial: keep the snapped ones, re-read the others from a model
        if str(s.check()) == 'sat':
            m = s.model()
            out = {}
            for n in names:
                out[n] = cur[n] if cur[n] is not None else _frac(m.eval(eng.vars[eng.params[n]]['z'], model_completion=True))
            fixed = out
    return fixed or vals


# ----------------------------------------------------------------------------- exploration
LATTICE = [Fraction(n, 4) for n in (-12, -8, -4, -2, -1, 0, 1, 2, 4, 8, 12, 3, -3, 6, -6)]


def _lattice_witnesses(eng, vals, n, salt):
    """up to n further parameter assignments on the quarter lattice that satisfy the same path condition (checked by the solver)"""
    if n <= 0:
        return
    import random as _r
    rng = _r.Random(hash(salt) & 0xffff)
    names = [k for k in vals if eng.vars[eng.params[k]]['kind'] == 'param']
    tried, found = set(), 0
    for attempt in range(4 * n):
        cand = dict(vals)
        for k in rng.sample(names, min(len(names), 1 + attempt % 2)):
            cand[k] = rng.choice(LATTICE)
        key = tuple(sorted(cand.items()))
        if key in tried or cand == vals:
            continue
        tried.add(key)
        try:
            eng._tick()
            r = eng.solver.check(*[eng.vars[eng.params[k]]['z'] == core._q(v) for k, v in cand.items() if k in names])
        except BaseException:
            return
        if str(r) == 'sat':
            found += 1
            yield cand
            if found >= n:
                return


def explore(fam, tier='quick', budget_s=60, timeout_ms=3000, slow_ms=20000, max_paths=20000, validate=True,
            profile=True, extra_witnesses=0):
    t0 = time.time()
    deadline = t0 + budget_s
    work = [([], False)]
    res = dict(family=fam.fid, paths=0, infeasible=0, undecided=0, unknown_branches=0, outcomes={}, violations=[],
               validated=0, diverged=[], inadmissible_witness=0, errors=[], functions=set(), params={},
               samples=[], decisions=0)
    stats = core.Stats()
    seen_funcs = set()
    Engine.prefer_nlsat = 0

    def prof(frame, event, arg):
        if event == 'call':
            co = frame.f_code
            fn = co.co_filename
            if '/Geometry3D/' in fn and '/site-packages/' not in fn:
                seen_funcs.add('%s:%s' % ('Geometry3D/' + fn.split('/Geometry3D/', 1)[1], co.co_qualname if hasattr(co, 'co_qualname') else co.co_name))

    first = True
    while work:
        if time.time() > deadline or res['paths'] >= max_paths:
            res['undecided'] += len(work)
            res['errors'].append('budget: %d prefixes left unexplored' % len(work))
            break
        prefix, unk = work.pop()
        eng = Engine(prefix, timeout_ms=timeout_ms, slow_timeout_ms=slow_ms, deadline=deadline)
        core.set_engine(eng)
        ctx = SymCtx(eng)
        status = None
        viol = None
        if first and profile:
            sys.setprofile(prof)
        try:
            fam.fn(ctx, *fam.args)
            status = 'ok'
        except Violation as v:
            status = 'violation'
            viol = v
        except Infeasible:
            status = 'infeasible'
        except Inconclusive as e:
            status = 'undecided'
            res['errors'].append('inconclusive: %s' % e)
        except Budget:
            status = 'undecided'
            res['errors'].append('budget exhausted inside a path')
        except Unsupported as e:
            status = 'unsupported'
            tb = traceback.extract_tb(e.__traceback__)
            site = [f for f in tb if 'Geometry3D' in f.filename or '/checks/' in f.filename or '/refgeo/' in f.filename]
            res['errors'].append('unsupported: %s @ %s' % (e, ['%s:%d' % (os.path.basename(f.filename), f.lineno) for f in site[-2:]]))
        except Exception as e:   # harness / oracle bug: never a verdict
            status = 'error'
            tb = traceback.extract_tb(e.__traceback__)
            res['errors'].append('harness exception %s: %s @ %s' % (type(e).__name__, e, ['%s:%d' % (os.path.basename(f.filename), f.lineno) for f in tb[-3:]]))
        finally:
            if first and profile:
                sys.setprofile(None)
            first = False
        stats.merge(eng.stats)
        res['unknown_branches'] += eng.unknown_branches
        res['decisions'] += len(eng.decisions)
        res['params'].update(ctx.pinfo)
        for p, u in eng.worklist:
            work.append((p, u))
        if status == 'infeasible':
            res['infeasible'] += 1
            core.set_engine(None)
            continue
        res['paths'] += 1
        if status in ('undecided', 'unsupported', 'error'):
            res['undecided'] += 1
            if status != 'error' and validate:
                # the path stays undecided (nothing is claimed for it), but the parameter values that steered it are still
                # replayed on the real library: a violation reproduced there is real, whatever the encoding could not express
                try:
                    vals = eng.witness()
                    core.set_engine(None)
                    c = run_concrete(fam, vals)
                    if c['status'] == 'violation':
                        res['violations'].append(dict(sig=c['violations'][0][0], detail=str(c['violations'][0][1])[:300], family=fam.fid,
                                                      replayed=True, params={k: str(v) for k, v in vals.items()},
                                                      concrete_detail='found by float replay of the parameter values of a path the symbolic '
                                                                      'encoding could not finish (%s)' % status))
                except BaseException:
                    pass
            core.set_engine(None)
            continue
        label = '/'.join(ctx.outcomes) if ctx.outcomes else '-'
        if status == 'violation':
            entry = _handle_violation(fam, eng, ctx, viol)
            res['violations'].append(entry)
            label += '!VIOL'
        res['outcomes'][label] = res['outcomes'].get(label, 0) + 1
        # witness of this path, replayed on the real library
        if status == 'ok' and validate:
            try:
                vals = eng.witness()
                sym_out = list(ctx.outcomes)
                core.set_engine(None)
                c = run_concrete(fam, vals)
                if c['status'] == 'inadmissible':
                    res['inadmissible_witness'] += 1
                elif c['status'] == 'ok' and c['outcomes'] == sym_out:
                    res['validated'] += 1
                    if len(res['samples']) < 3:
                        res['samples'].append(dict(params={k: str(v) for k, v in vals.items()}, outcome=sym_out))
                    # further witnesses of the same path on the quarter lattice, replayed with floats: the exact-real model
                    # is blind to rounding, the property's inputs are lattice points
                    for vals2 in _lattice_witnesses(eng, vals, extra_witnesses, fam.fid):
                        core.set_engine(None)
                        c2 = run_concrete(fam, vals2)
                        if c2['status'] == 'violation':
                            res['violations'].append(dict(sig=c2['violations'][0][0], detail=str(c2['violations'][0][1])[:300], family=fam.fid,
                                                          replayed=True, params={k: str(v) for k, v in vals2.items()},
                                                          concrete_detail='found by float replay of a lattice witness of a path (exact-real model passes)'))
                            break
                        if c2['status'] == 'ok':
                            res['lattice_witnesses'] = res.get('lattice_witnesses', 0) + 1
                elif c['status'] == 'violation':
                    # the real (float) library breaks the property on the witness although the exact-real model does
                    # not: a genuine, already reproduced violation found by the witness replay
                    res['violations'].append(dict(sig=c['violations'][0][0], detail=str(c['violations'][0][1])[:300], family=fam.fid,
                                                  replayed=True, params={k: str(v) for k, v in vals.items()},
                                                  concrete_detail='found by float replay of a path witness (exact-real model passes)'))
                else:
                    res['diverged'].append(dict(params={k: str(v) for k, v in vals.items()}, symbolic=sym_out,
                                                concrete=c['outcomes'], concrete_status=c['status'],
                                                concrete_violations=c['violations'][:2]))
            except PathAbort as e:
                res['inadmissible_witness'] += 1
            except Exception as e:
                res['diverged'].append(dict(error='%s: %s' % (type(e).__name__, e)))
        core.set_engine(None)
    res['functions'] = sorted(seen_funcs)
    res['stats'] = stats.as_dict()
    res['wall_s'] = round(time.time() - t0, 2)
    missing = [o for o in fam.must_reach if not any(o in k.split('/') or o == k for k in res['outcomes'])]
    res['missing_outcomes'] = missing
    res['decided'] = (res['undecided'] == 0 and not missing)
    return res


class _CandidateStream:
    """the first candidates, then up to 6 further models of (path condition and violated requirement) that differ from
    all earlier ones in every free parameter if possible, else in at least one: a counterexample of the exact-real model
    that does not reproduce with floats at one point (e.g. at a lattice value where rounding is invisible) may reproduce at another"""

    def __init__(self, eng, ctx, first):
        self.eng, self.ctx, self.first = eng, ctx, list(first)

    def __iter__(self):
        seen = []
        for v in self.first:
            seen.append(v)
            yield v
        cond = getattr(self.ctx, '_viol_cond', None)
        try:
            s = z3.Solver()
            s.set('timeout', 3000)
            for c in self.eng.pc:
                s.add(c)
            if cond is not None:
                s.add(cond)
            zs = {n: self.eng.vars[vid]['z'] for n, vid in self.eng.params.items() if self.eng.vars[vid]['kind'] == 'param'}
            for _ in range(6):
                s.push()
                for v in seen:
                    for n, z in zs.items():
                        if n in v:
                            s.add(z != core._q(v[n]))
                r = str(s.check())
                if r != 'sat':
                    s.pop()
                    s.push()
                    for v in seen:
                        s.add(z3.Or(*[z != core._q(v[n]) for n, z in zs.items() if n in v]))
                    r = str(s.check())
                if r != 'sat':
                    s.pop()
                    return
                vals = self.ctx.values(s.model())
                s.pop()
                seen.append(vals)
                yield vals
        except Exception:
            return


def _handle_violation(fam, eng, ctx, viol):
    model = ctx._viol_model
    entry = dict(sig=viol.sig, detail=str(viol.detail)[:300], family=fam.fid, replayed=False)
    try:
        cands = []
        try:
            cands.append(_nice_values(eng, ctx, model))
        except Exception:
            pass
        cands.append(ctx.values(model))
        cands = _CandidateStream(eng, ctx, cands)
        for vals in cands:
            core.set_engine(None)
            c = run_concrete(fam, vals)
            entry['params'] = {k: str(v) for k, v in vals.items()}
            if c['status'] == 'violation' and any(s == viol.sig for s, _ in c['violations']):
                entry['replayed'] = True
                entry['concrete_detail'] = str(c['violations'][0][1])[:300]
                break
            entry['replay_status'] = c['status'] + ' ' + str(c['violations'][:1])
    except PathAbort as e:
        entry['replay_status'] = 'abort %r' % (e,)
    return entry


# ----------------------------------------------------------------------------- driver
def _worker(args):
    modname, idx, opts = args
    import importlib
    shims.install()
    mod = importlib.import_module(modname)
    fams = mod.families(opts['tier'], opts['seed'])
    fam = fams[idx]
    if opts.get('twin'):
        # planted-defect twin: an in-memory mutant of an anchored function; /repo is never touched
        mod.TWINS[opts['twin']][1]()
    try:
        return explore(fam, tier=opts['tier'], budget_s=min(fam.budget_s or opts['budget_s'], opts.get('family_cap') or 1e9), timeout_ms=fam.timeout_ms or opts['timeout_ms'], extra_witnesses=opts.get('extra_witnesses', 0),
                       slow_ms=opts['slow_ms'])
    except BaseException as e:
        return dict(family=fam.fid, paths=0, undecided=1, violations=[], outcomes={}, validated=0, diverged=[],
                    errors=['worker crash %s: %s\n%s' % (type(e).__name__, e, traceback.format_exc()[-800:])], functions=[],
                    stats=core.Stats().as_dict(), wall_s=0, decided=False, missing_outcomes=[], infeasible=0,
                    unknown_branches=0, inadmissible_witness=0, params={}, samples=[], decisions=0)


def _child(conn, modname, idx, opts):
    try:
        r = _worker((modname, idx, opts))
    except BaseException as e:
        r = None
    try:
        conn.send(r)
    finally:
        conn.close()
        os._exit(0)


def _dead_result(fam, why):
    return dict(family=fam.fid, paths=0, undecided=1, violations=[], outcomes={}, validated=0, diverged=[], errors=[why],
                functions=[], stats=core.Stats().as_dict(), wall_s=0, decided=False, missing_outcomes=[], infeasible=0,
                unknown_branches=0, inadmissible_witness=0, params={}, samples=[], decisions=0)


def schedule(modname, fams, idxs, opts, jobs):
    """one forked process per family with a hard wall-clock limit (a solver call that ignores its timeout is killed and
    the family is reported undecided -- never as passed)"""
    ctxm = mp.get_context('fork')
    pending = list(idxs)
    cap = opts.get('wall_cap_s')
    t_start = time.time()
    if cap and len(pending) > 1:
        # under a wall cap the families are started in a seeded random order: what is explored within the cap is an unbiased
        # part of the family list and changes with VERIF_SEED
        import random as _r
        _r.Random(opts.get('seed', 0)).shuffle(pending)
    running = {}
    results = []
    while pending or running:
        if cap and pending and time.time() - t_start > cap:
            for i in pending:
                r = _dead_result(fams[i], 'not started: wall cap of the tier reached')
                r['skipped'] = True
                results.append(r)
            pending = []
            continue
        while pending and len(running) < jobs:
            i = pending.pop(0)
            pr, pw = ctxm.Pipe(duplex=False)
            p = ctxm.Process(target=_child, args=(pw, modname, i, opts))
            p.start()
            pw.close()
            limit = (fams[i].budget_s or opts['budget_s']) * 1.25 + 30
            running[i] = (p, pr, time.time() + limit)
        time.sleep(0.05)
        for i, (p, pr, dl) in list(running.items()):
            if pr.poll():
                try:
                    r = pr.recv()
                except EOFError:
                    r = None
                p.join(5)
                if p.is_alive():
                    p.kill()
                results.append(r if r is not None else _dead_result(fams[i], 'worker died'))
                del running[i]
            elif not p.is_alive():
                r = None
                if pr.poll(0.2):        # the result may have arrived between the two tests
                    try:
                        r = pr.recv()
                    except EOFError:
                        r = None
                results.append(r if r is not None else _dead_result(fams[i], 'worker died without a result (exit code %s)' % p.exitcode))
                del running[i]
            elif time.time() > dl:
                p.kill()
                p.join(5)
                results.append(_dead_result(fams[i], 'killed: wall-clock limit exceeded (a solver call ignored its timeout)'))
                del running[i]
    return results


def load_known(prop):
    fn = os.path.join(VERIF, 'known_findings.json')
    if not os.path.exists(fn):
        return []
    data = json.load(open(fn))
    return [f for f in data.get('findings', []) if f.get('property') == prop and f.get('status', 'open') == 'open']


def main_check(prop, modname, tier, seed, level_note, bounds, outside_claim, assumptions, jobs=None, only=None,
               extra_hook=None):
    """run every family of a property module, write evidence, print verdict lines, return exit code"""
    t0 = time.time()
    import importlib
    shims.install()
    mod = importlib.import_module(modname)
    fams = mod.families(tier, seed)
    idxs = [i for i, f in enumerate(fams) if not only or re.search(only, f.fid)]
    opts = dict(tier=tier, seed=seed, budget_s=getattr(mod, 'BUDGET', {}).get(tier, 60 if tier == 'quick' else 300),
                timeout_ms=getattr(mod, 'TIMEOUT_MS', {}).get(tier, 3000 if tier == 'quick' else 10000),
                slow_ms=getattr(mod, 'SLOW_MS', {}).get(tier, 15000 if tier == 'quick' else 60000),
                extra_witnesses=getattr(mod, 'EXTRA_WITNESSES', {}).get(tier, 2 if tier == 'quick' else 6))
    # the thorough tier starts families (in seeded random order) for at most WALL_CAP seconds; families not started are listed
    # in the evidence as not run and nothing is claimed for them
    fcap = float(os.environ.get('VERIF_FAMILY_CAP', 480))
    if tier == 'thorough':
        # per-family budgets of the thorough tier are clamped (VERIF_FAMILY_CAP seconds) so that the families still running when the
        # wall cap is reached end within a bounded time
        opts['budget_s'] = min(opts['budget_s'], fcap)
        opts['family_cap'] = fcap
        for f in fams:
            if f.budget_s:
                f.budget_s = min(f.budget_s, fcap)
    cap = os.environ.get('VERIF_WALL_CAP')
    opts['wall_cap_s'] = float(cap) if cap else (getattr(mod, 'WALL_CAP', {}).get(tier) or (600 if tier == 'thorough' else None))
    jobs = jobs or min(16, os.cpu_count() or 4)
    results = schedule(modname, fams, idxs, opts, jobs)
    twins = run_twins(mod, modname, fams, opts, jobs) if not only else []
    results.sort(key=lambda r: r['family'])
    extra = None
    if extra_hook is not None:
        extra = extra_hook(tier, seed)
    if twins:
        extra = extra or {}
        extra.setdefault('coverage', {})['planted_defect_twins'] = twins
        missed = [t['name'] for t in twins if not t['detected']]
        if missed:
            # reported, not fatal: a twin is an in-memory mutant of a *public* entry point; a refactoring that routes around
            # the patched name must not turn into an alarm (vacuity is also guarded by must_reach and the witness replay)
            print('TWIN-NOT-DETECTED: %s' % missed)
    return finish(prop, tier, seed, results, t0, level_note, bounds, outside_claim, assumptions, extra)


def run_twins(mod, modname, fams, opts, jobs):
    """vacuity guard: re-run one family per twin with an in-memory mutant of the code under test; the run must end in a
    replayed violation"""
    tw = getattr(mod, 'TWINS', None)
    if not tw:
        return []
    out = []
    for name, (pattern, _patch) in tw.items():
        idx = next((i for i, f in enumerate(fams) if re.search(pattern, f.fid)), None)
        if idx is None:
            out.append(dict(name=name, detected=False, note='no family matches %s' % pattern))
            continue
        o2 = dict(opts)
        o2['twin'] = name
        r = schedule(modname, fams, [idx], o2, 1)[0]
        hits = [v for v in r['violations'] if v.get('replayed')]
        out.append(dict(name=name, family=fams[idx].fid, detected=bool(hits), violation=hits[0]['sig'] if hits else None,
                        params=hits[0].get('params') if hits else None))
    return out


def finish(prop, tier, seed, results, t0, level_note, bounds, outside_claim, assumptions, extra=None):
    known = load_known(prop)
    viol_new, viol_known, unreplayed = [], {}, []
    for r in results:
        for v in r['violations']:
            if not v.get('replayed'):
                unreplayed.append(v)
                continue
            k = next((f for f in known if re.search(f['match'], v['sig'])), None)
            if k is not None:
                viol_known.setdefault(k['id'], []).append(v)
            else:
                viol_new.append(v)
    if extra:
        for v in extra.get('violations', []):
            k = next((f for f in known if re.search(f['match'], v['sig'])), None)
            if k is not None:
                viol_known.setdefault(k['id'], []).append(v)
            else:
                viol_new.append(v)
    skipped = [r for r in results if r.get('skipped')]
    results = [r for r in results if not r.get('skipped')]
    decided = [r for r in results if r['decided']]
    undecided = [r for r in results if not r['decided']]
    diverged = [dict(family=r['family'], **d) for r in results for d in r['diverged']]
    tot = core.Stats()
    for r in results:
        for k, v in r['stats'].items():
            setattr(tot, k, getattr(tot, k) + v)
    funcs = sorted({f for r in results for f in r['functions']})
    paths = sum(r['paths'] for r in results)
    os.makedirs(os.path.join(OUTDIR, 'replays'), exist_ok=True)
    os.makedirs(os.path.join(OUTDIR, 'evidence'), exist_ok=True)
    lines = []
    # replay files for new violations (deduplicated by signature)
    seen = set()
    for v in viol_new:
        if v['sig'] in seen:
            continue
        seen.add(v['sig'])
        h = hashlib.sha1((v['sig'] + json.dumps(v.get('params', {}), sort_keys=True)).encode()).hexdigest()[:10]
        path = os.path.join(OUTDIR, 'replays', '%s_%s.json' % (prop, h))
        json.dump(dict(property=prop, family=v.get('family'), params=v.get('params'), sig=v['sig'], detail=v.get('detail'),
                       tier=tier, seed=seed, kind=v.get('kind', 'family')), open(path, 'w'), indent=1)
        lines.append('VIOLATION property=%s replay=%s' % (prop, path))
        lines.append('  # %s :: %s :: %s' % (v['sig'], v.get('params'), v.get('concrete_detail', v.get('detail', ''))))
    for kid, vs in sorted(viol_known.items()):
        k = next(f for f in known if f['id'] == kid)
        lines.append('KNOWN-FINDING: property=%s %s (%d occurrences this run, e.g. %s %s)' % (
            prop, k['what'], len(vs), vs[0].get('family'), vs[0].get('params')))
    # quick tier: at least 60 % of the families must be decided; the thorough tier deliberately contains families at the edge of the
    # solver's reach (moving vertices, tilted axes, Cylinder volumes): 40 % there
    min_decided = max(1, int((0.6 if tier == 'quick' else 0.4) * len(results)))
    harness_problem = []
    if unreplayed:
        harness_problem.append('%d solver counterexamples did not reproduce on the real library (model/oracle problem), e.g. %s' % (
            len(unreplayed), json.dumps(unreplayed[0])[:400]))
    if diverged:
        harness_problem.append('%d path witnesses diverged between symbolic and concrete execution, e.g. %s' % (
            len(diverged), json.dumps(diverged[0])[:400]))
    if len(decided) < min_decided:
        harness_problem.append('only %d of %d families decided (minimum %d): %s' % (
            len(decided), len(results), min_decided, [(r['family'], r['errors'][:1], r.get('missing_outcomes')) for r in undecided][:5]))
    if extra and extra.get('errors'):
        harness_problem.extend(extra['errors'])
    samples = []
    for r in results:
        for s in r.get('samples', [])[:1]:
            samples.append(dict(family=r['family'], **s))
    samples = samples[:12] or [dict(family=r['family'], outcomes=r['outcomes']) for r in results[:5]]
    cov = dict(
        states=paths,
        transitions=sum(r.get('decisions', 0) for r in results),
        traces_validated_against_impl=sum(r['validated'] for r in results) + sum(r.get('lattice_witnesses', 0) for r in results),
        lattice_witnesses_replayed=sum(r.get('lattice_witnesses', 0) for r in results),
        samples=samples,
        families=len(results), families_decided=len(decided),
        families_not_started_wall_cap=dict(count=len(skipped), families=[r['family'] for r in skipped][:400]),
        families_undecided=[dict(family=r['family'], errors=r['errors'][:2], missing_outcomes=r.get('missing_outcomes')) for r in undecided][:40],
        outcome_classes={r['family']: r['outcomes'] for r in results},
        slowest_families=sorted(((r['wall_s'], r['family'], r['paths']) for r in results), reverse=True)[:8],
        functions_encoded=funcs,
        bounds=bounds,
        queries=tot.queries, unsat=tot.unsat, sat=tot.sat, unknown=tot.unknown, solver_s=round(tot.solver_s, 2),
        fallback_nlsat=tot.fallback_nlsat, fallback_cvc5=tot.fallback_cvc5,
        unknown_branch_sides=sum(r['unknown_branches'] for r in results),
        witnesses_inadmissible_or_irrational=sum(r['inadmissible_witness'] for r in results),
        shims_used=['float', 'math.sqrt/**0.5', 'math.acos', 'math.atan2', 'round', 'hash'],
        outside_claim=outside_claim,
        known_findings_reobserved=sorted(viol_known),
        harness_problems=harness_problem,
        exhaustive=False,
    )
    if extra:
        cov.update(extra.get('coverage', {}))
    ev = dict(property_id=prop, tier=tier, seed=seed, level='model_checking', coverage=cov,
              assumptions=assumptions, wall_s=round(time.time() - t0, 2), violations=len(viol_new))
    json.dump(ev, open(os.path.join(OUTDIR, 'evidence', '%s.json' % prop), 'w'), indent=1, default=str)
    for l in lines:
        print(l)
    if skipped:
        print('%s: %d further families were not started (wall cap of the %s tier); they are listed in the evidence, nothing is claimed for them' % (
            prop, len(skipped), tier))
    print('%s tier=%s families=%d decided=%d paths=%d queries=%d (unsat %d, sat %d, unknown %d) solver_s=%.1f validated=%d wall=%.1fs' % (
        prop, tier, len(results), len(decided), paths, tot.queries, tot.unsat, tot.sat, tot.unknown, tot.solver_s,
        cov['traces_validated_against_impl'], time.time() - t0))
    if viol_new:
        return 1
    if harness_problem:
        for h in harness_problem:
            print('HARNESS-PROBLEM: ' + h)
        return 2
    return 0


def replay_file(path, modname):
    """re-run one recorded counterexample against the real library"""
    import importlib
    shims.install()
    data = json.load(open(path))
    mod = importlib.import_module(modname)
    if data.get('kind') == 'direct':
        return mod.replay_direct(data)
    fam = next((f for f in mod.families(data.get('tier', 'quick'), data.get('seed', 0)) if f.fid == data['family']), None)
    if fam is None:
        fam = next((f for f in mod.families('thorough', data.get('seed', 0)) if f.fid == data['family']), None)
    if fam is None:
        print('family %s not found' % data['family'])
        return 2
    c = run_concrete(fam, {k: Fraction(v) for k, v in data['params'].items()})
    print('replay status=%s outcomes=%s violations=%s' % (c['status'], c['outcomes'], c['violations']))
    if c['status'] == 'violation':
        print('VIOLATION property=%s replay=%s' % (data['property'], path))
        return 1
    return 0

"""symgeo.fp64 -- bit-precise IEEE-754 binary64 domain for short straight-line float kernels.

Same proxy mechanism as SymNum, but the value is a z3 FloatingPoint(11,53) term and every operation is the
correctly rounded (round-to-nearest-even) IEEE operation, i.e. what CPython's float does on this platform.
`** 0.5` is modelled by fp.sqrt (CPython calls C pow(x, 0.5); glibc's pow is correctly rounded for 0.5 on the
inputs concerned -- an assumption re-checked by the concrete replay of every counterexample).
"""
import builtins
import z3
from . import core

_real_float = builtins.float
F64 = z3.Float64()
RNE = z3.RNE()


def _fp(x):
    if isinstance(x, FPNum):
        return x.z
    if isinstance(x, bool):
        raise core.Unsupported('bool in float arithmetic')
    if isinstance(x, (int, _real_float)):
        return z3.FPVal(_real_float(x), F64)
    raise core.Unsupported('FPNum with %r' % type(x))


class FPBool:
    __slots__ = ('z',)

    def __init__(self, z):
        self.z = z

    def __bool__(self):
        if z3.is_true(self.z):
            return True
        if z3.is_false(self.z):
            return False
        return core.ENG.decide(self.z)


class Dy:
    """exact dyadic shadow of a float value: value = bv / 2**sh with |bv| <= bound < 2**53, so the binary64 result of
    +,-,* on such values is exact and can be computed in (narrow) bit-vector arithmetic instead of bit-blasted
    floating point.  The FP term is materialised only when an inexact operation (sqrt, /) needs it."""
    __slots__ = ('bv', 'w', 'sh', 'bound')

    def __init__(self, bv, w, sh, bound):
        self.bv, self.w, self.sh, self.bound = bv, w, sh, bound

    @staticmethod
    def of_const(c):
        from fractions import Fraction
        fr = Fraction(_real_float(c))
        d = fr.denominator
        if d & (d - 1) or abs(fr.numerator) >= 2 ** 40 or d > 2 ** 20:
            return None
        n = fr.numerator
        w = max(2, abs(n).bit_length() + 2)
        return Dy(z3.BitVecVal(n, w), w, d.bit_length() - 1, abs(n))

    def ext(self, w):
        return self.bv if w == self.w else z3.SignExt(w - self.w, self.bv)


def _dy(x):
    if isinstance(x, FPNum):
        return x.dy
    if isinstance(x, (int, _real_float)) and not isinstance(x, bool):
        return Dy.of_const(x)
    return None


def _dy_add(a, b, sub=False):
    sh = max(a.sh, b.sh)
    ba, bb = a.bound << (sh - a.sh), b.bound << (sh - b.sh)
    bound = ba + bb
    if bound >= 2 ** 52:
        return None
    w = bound.bit_length() + 2
    xa = a.ext(w) << (sh - a.sh) if a.w <= w else None
    xb = b.ext(w) << (sh - b.sh) if b.w <= w else None
    if xa is None or xb is None:
        return None
    return Dy(z3.simplify(xa - xb if sub else xa + xb), w, sh, bound)


def _dy_mul(a, b):
    bound = a.bound * b.bound
    if bound >= 2 ** 52:
        return None
    w = max(bound.bit_length() + 2, a.w, b.w)
    return Dy(z3.simplify(a.ext(w) * b.ext(w)), w, a.sh + b.sh, bound)


class FPNum:
    __slots__ = ('_z', 'dy')

    def __init__(self, x=0.0, dy=None):
        self.dy = dy
        if dy is not None:
            self._z = None
        elif isinstance(x, FPNum):
            self._z, self.dy = x._z, x.dy
        elif z3.is_expr(x):
            self._z = x
        else:
            self.dy = Dy.of_const(x)
            self._z = _fp(x)

    @property
    def z(self):
        if self._z is None:
            d = self.dy
            f = z3.fpSignedToFP(RNE, d.bv, F64)
            if d.sh:
                f = z3.fpMul(RNE, f, z3.FPVal(2.0 ** -d.sh, F64))     # exact (power of two, no underflow)
            self._z = f
        return self._z

    def _bin(s, o, op, rev=False):
        if not isinstance(o, (FPNum, int, _real_float)) or isinstance(o, bool):
            return NotImplemented
        a, b = (_dy(o), s.dy) if rev else (s.dy, _dy(o))
        if a is not None and b is not None:
            r = _dy_mul(a, b) if op == 'mul' else _dy_add(a, b, sub=(op == 'sub'))
            if r is not None:
                return FPNum(dy=r)
        za, zb = (_fp(o), s.z) if rev else (s.z, _fp(o))
        f = {'add': z3.fpAdd, 'sub': z3.fpSub, 'mul': z3.fpMul}[op]
        return FPNum(f(RNE, za, zb))

    def __add__(s, o): return s._bin(o, 'add')
    def __radd__(s, o): return s._bin(o, 'add', True)
    def __sub__(s, o): return s._bin(o, 'sub')
    def __rsub__(s, o): return s._bin(o, 'sub', True)
    def __mul__(s, o): return s._bin(o, 'mul')
    def __rmul__(s, o): return s._bin(o, 'mul', True)

    def _is_zero(s):
        if s.dy is not None:
            return FPBool(z3.simplify(s.dy.bv == 0))
        return FPBool(z3.fpIsZero(s.z))

    def __truediv__(s, o):
        if not isinstance(o, FPNum):
            o = FPNum(o)
        if bool(o._is_zero()):
            raise ZeroDivisionError('float division by zero')
        return FPNum(z3.fpDiv(RNE, s.z, o.z))

    def __rtruediv__(s, o):
        if bool(s._is_zero()):
            raise ZeroDivisionError('float division by zero')
        return FPNum(z3.fpDiv(RNE, _fp(o), s.z))

    def __neg__(s):
        if s.dy is not None:
            return FPNum(dy=Dy(-s.dy.bv, s.dy.w, s.dy.sh, s.dy.bound))
        return FPNum(z3.fpNeg(s.z))

    def __pos__(s): return s

    def __abs__(s):
        if bool(s < 0.0):
            return -s
        return s

    def __pow__(s, e):
        if e == 0.5:
            if bool(s < 0.0):
                raise ValueError('negative number cannot be raised to a fractional power')   # (complex in CPython; unreachable here)
            return FPNum(z3.fpSqrt(RNE, s.z))
        if e == 2:
            return s * s
        raise core.Unsupported('FPNum ** %r' % (e,))

    def _cmp(s, o, op):
        a, b = s.dy, _dy(o)
        if a is not None and b is not None:
            d = _dy_add(a, b, sub=True)
            if d is not None:
                zero = z3.BitVecVal(0, d.w)
                z = {'lt': d.bv < zero, 'le': d.bv <= zero, 'gt': d.bv > zero, 'ge': d.bv >= zero, 'eq': d.bv == zero}[op]
                return FPBool(z3.simplify(z))
        f = {'lt': z3.fpLT, 'le': z3.fpLEQ, 'gt': z3.fpGT, 'ge': z3.fpGEQ, 'eq': z3.fpEQ}[op]
        return FPBool(f(s.z, _fp(o)))

    def __lt__(s, o): return s._cmp(o, 'lt')
    def __le__(s, o): return s._cmp(o, 'le')
    def __gt__(s, o): return s._cmp(o, 'gt')
    def __ge__(s, o): return s._cmp(o, 'ge')

    def __eq__(s, o):
        if not isinstance(o, (FPNum, int, _real_float)):
            return False
        return s._cmp(o, 'eq')

    def __ne__(s, o):
        if not isinstance(o, (FPNum, int, _real_float)):
            return True
        return FPBool(z3.Not(s._cmp(o, 'eq').z))

    def __hash__(s): return 0
    def __float__(s): raise core.Unsupported('float() of FPNum through the C API')
    def __format__(s, spec): return '<fp>'
    def __repr__(s): return 'FP(%s)' % (s._z if s._z is not None else s.dy.bv)
    def __deepcopy__(s, memo): return s


class FPAngle:
    """result of acos on an in-domain FPNum; only what calc.acute observes is modelled: acos(x) > pi/2 <=> x < 0"""
    def __init__(self, x):
        self.x = x

    def __gt__(self, c):
        if isinstance(c, _real_float) and abs(c - 1.5707963267948966) < 1e-12:
            return self.x < 0.0
        raise core.Unsupported('FPAngle > %r' % (c,))

    def __rsub__(self, c):
        if isinstance(c, _real_float) and abs(c - 3.141592653589793) < 1e-12:
            return FPAngle(-self.x)
        raise core.Unsupported('%r - FPAngle' % (c,))


def lattice(eng, name, lo, hi, den=4, bits=8):
    """a binary64 value k/den with k a signed integer solver variable in [lo, hi] (exactly representable)"""
    vid = len(eng.vars)
    z = z3.BitVec(name, bits)
    eng.vars.append(dict(name=name, z=z, kind='bv', info=(lo, hi, den)))
    eng.params[name] = vid
    eng._add(z3.And(z >= lo, z <= hi))
    eng.model_stale = True
    eng.fp_mode = True
    sh = den.bit_length() - 1
    assert den == 1 << sh
    return FPNum(dy=Dy(z, bits, sh, max(abs(lo), abs(hi)))), z

"""symgeo.shims -- run-time instrumentation of Geometry3D (no source hooks).

Every shim falls through to the genuine builtin for concrete arguments and, when no engine is
active (core.ENG is None: concrete / replay mode), for *all* arguments, so the library then runs
exactly as a user would run it.
"""
import sys, builtins, math, logging
from fractions import Fraction
import z3
from . import core
from .core import SymNum, SymBool, Unsupported, Poly
from . import fp64

_real_float = builtins.float
_real_round = builtins.round
_real_hash = builtins.hash
_real_isinstance = builtins.isinstance

_M = {k: getattr(math, k) for k in ('sqrt', 'acos', 'asin', 'atan2', 'atan', 'cos', 'sin', 'tan', 'log10', 'log',
                                    'floor', 'ceil', 'hypot', 'fabs', 'degrees', 'radians', 'isclose', 'exp', 'pow')}
PI = math.pi
COUNTS = {'float_on_sym': 0}


def _symbolic(*xs):
    return core.ENG is not None and any(isinstance(x, (SymNum, SymAngle, SymAcos, fp64.FPNum)) for x in xs)


# ----------------------------------------------------------------------------- angles
class SymAngle:
    """exact model of atan2(y, x) (plus an optional 2*pi shift): the library only observes its
    sign, ordering and equality (ConvexPolygon._check_and_sort_points)"""
    __slots__ = ('y', 'x', 'shift')

    def __init__(self, y, x, shift=0):
        self.y, self.x, self.shift = y, x, shift

    def _norm_ok(self):
        # comparisons below assume the library's normalisation: shift applied iff angle < 0
        return True

    def __lt__(self, o):
        if isinstance(o, (int, _real_float)) and o == 0:
            if self.shift:
                return False
            return self.y < 0
        if isinstance(o, SymAngle):
            return _angle_lt(self, o)
        raise Unsupported('SymAngle < %r' % (o,))

    def __gt__(self, o):
        if isinstance(o, SymAngle):
            return _angle_lt(o, self)
        raise Unsupported('SymAngle > %r' % (o,))

    def __add__(self, o):
        if isinstance(o, (int, _real_float)) and abs(o - 2 * PI) < 1e-12:
            return SymAngle(self.y, self.x, self.shift + 1)
        raise Unsupported('SymAngle + %r' % (o,))
    __iadd__ = __add__
    __radd__ = __add__

    def __eq__(self, o):
        if isinstance(o, SymAngle):
            cr = self.x * o.y - self.y * o.x
            dt = self.x * o.x + self.y * o.y
            return core.And(cr == 0, dt > 0)
        return False

    def __ne__(self, o):
        return core.Not(self.__eq__(o))

    def __hash__(self):
        return 0

    def __repr__(self):
        return 'SymAngle'


def _angle_lt(a, b):
    """both already normalised to [0, 2pi): value = atan2 + 2pi*[y<0].  Order: upper half plane
    (y>0, or y==0 with x>0 -> 0, or y==0 with x<0 -> pi) before the lower one; inside a half by the
    sign of the cross product."""
    ha = a.y < 0
    hb = b.y < 0
    cr = a.x * b.y - a.y * b.x
    dt = a.x * b.x + a.y * b.y
    same_half_lt = core.Or(cr > 0, core.And(cr == 0, dt < 0, a.x > 0))
    return core.Or(core.And(core.Not(ha), hb), core.And(core.Iff(ha, hb), same_half_lt))


class SymAcos:
    """value kind(x) with kind in 'acos' | 'asin' and x a (symbolic) real in [-1, 1]"""
    __slots__ = ('kind', 'x')

    def __init__(self, kind, x):
        self.kind, self.x = kind, x

    def _cmp_const(self, c, op):
        # op: 'gt' (self > c) or 'lt' (self < c); monotonicity of acos / asin
        if not isinstance(c, (int, _real_float, Fraction)):
            raise Unsupported('SymAcos compared with %r' % (c,))
        c = _real_float(c)
        if self.kind == 'acos':
            if c < 0:
                return op == 'gt'
            if c > PI:
                return op == 'lt'
            if abs(c - PI / 2) < 1e-15:
                k = 0.0
            else:
                k = _M['cos'](c)
            return (self.x < k) if op == 'gt' else (self.x > k)
        else:
            if c < -PI / 2:
                return op == 'gt'
            if c > PI / 2:
                return op == 'lt'
            k = 0.0 if c == 0 else _M['sin'](c)
            return (self.x > k) if op == 'gt' else (self.x < k)

    def __gt__(self, c):
        return self._cmp_const(c, 'gt')

    def __lt__(self, c):
        return self._cmp_const(c, 'lt')

    def __ge__(self, c):
        return core.Not(self._cmp_const(c, 'lt'))

    def __le__(self, c):
        return core.Not(self._cmp_const(c, 'gt'))

    def __rsub__(self, c):
        if isinstance(c, (int, _real_float)):
            if abs(c - PI) < 1e-12 and self.kind == 'acos':
                return SymAcos('acos', -self.x)
            if abs(c - PI / 2) < 1e-12:
                return SymAcos('asin' if self.kind == 'acos' else 'acos', self.x)
        raise Unsupported('%r - SymAcos(%s)' % (c, self.kind))

    def __float__(self):
        raise Unsupported('float(SymAcos)')

    def __format__(self, spec):
        return '<symangle>'

    def __repr__(self):
        return 'Sym%s(%r)' % (self.kind, self.x)


# ----------------------------------------------------------------------------- math.*
def _sqrt(x):
    if core.ENG is not None and isinstance(x, fp64.FPNum):
        if bool(x < 0.0):
            raise ValueError('math domain error')
        return fp64.FPNum(z3.fpSqrt(fp64.RNE, x.z))
    if _symbolic(x):
        return core.sym_sqrt(x)
    if EXACT_CONCRETE_SQRT[0] and core.ENG is not None and isinstance(x, (int, _real_float, Fraction)) and x >= 0:
        return core.sym_sqrt(x, force_atom=True)
    return _M['sqrt'](x)


ACOS_SLACK = Fraction(1, 10 ** 9)   # exact reals mixed with concrete float sub-results: noise-level excess over 1 is
#                                     not a domain error of the model (the bit-precise FP64 domain decides that question)


def _acos(x):
    if core.ENG is not None and isinstance(x, fp64.FPNum):
        if bool(x < -1.0) or bool(x > 1.0):
            raise ValueError('math domain error')
        return fp64.FPAngle(x)
    if _symbolic(x):
        if bool(x < -1 - ACOS_SLACK) or bool(x > 1 + ACOS_SLACK):
            raise ValueError('math domain error')
        return SymAcos('acos', x)
    return _M['acos'](x)


def _asin(x):
    if _symbolic(x):
        if bool(x < -1 - ACOS_SLACK) or bool(x > 1 + ACOS_SLACK):
            raise ValueError('math domain error')
        return SymAcos('asin', x)
    return _M['asin'](x)


def _atan2(y, x):
    if _symbolic(y, x):
        return SymAngle(y, x)
    return _M['atan2'](y, x)


def _fabs(x):
    if _symbolic(x):
        return abs(x)
    return _M['fabs'](x)


def _unsupported(name):
    real = _M[name]

    def f(*a, **kw):
        if _symbolic(*a) or _symbolic(*kw.values()):
            raise Unsupported('math.%s on a symbolic value' % name)
        return real(*a, **kw)
    f.__name__ = name
    return f


def _isclose(a, b, *, rel_tol=1e-09, abs_tol=0.0):
    """math.isclose: |a - b| <= max(rel_tol * max(|a|, |b|), abs_tol)"""
    if not _symbolic(a, b, rel_tol, abs_tol):
        return _M['isclose'](a, b, rel_tol=rel_tol, abs_tol=abs_tol)
    if any(isinstance(x, (SymAngle, SymAcos, fp64.FPNum)) for x in (a, b, rel_tol, abs_tol)):
        raise Unsupported('math.isclose on a symbolic angle / FP value')
    fr = lambda x: Fraction(x) if isinstance(x, _real_float) else x
    a, b, rel_tol, abs_tol = fr(a), fr(b), fr(rel_tol), fr(abs_tol)
    d = abs(a - b)
    return core.Or(d <= rel_tol * abs(a), d <= rel_tol * abs(b), d <= abs_tol)


def _trig(name):
    """cos / sin / tan of an inverse-trigonometric value are algebraic: cos(acos x) = x, sin(acos x) = sqrt(1 - x^2), ...;
    of anything else symbolic: unsupported"""
    real = _M[name]

    def cs(a):
        if isinstance(a, SymAcos):
            co = _sqrt(1 - a.x * a.x)
            return (a.x, co) if a.kind == 'acos' else (co, a.x)
        if isinstance(a, SymAngle):
            r = _sqrt(a.x * a.x + a.y * a.y)
            return a.x / r, a.y / r
        raise Unsupported('math.%s on a symbolic value' % name)

    def f(a):
        if not _symbolic(a):
            return real(a)
        c, s_ = cs(a)
        return c if name == 'cos' else s_ if name == 'sin' else s_ / c
    f.__name__ = name
    return f


_MATH_PATCH = {'sqrt': _sqrt, 'acos': _acos, 'asin': _asin, 'atan2': _atan2, 'fabs': _fabs, 'cos': _trig('cos'), 'sin': _trig('sin'),
               'tan': _trig('tan'), 'isclose': _isclose}
for _n in ('atan', 'log10', 'log', 'floor', 'ceil', 'hypot', 'degrees', 'radians',
           'exp', 'pow'):
    _MATH_PATCH[_n] = _unsupported(_n)


# ----------------------------------------------------------------------------- float()
class _FloatMeta(type):
    def __instancecheck__(cls, inst):
        return _real_isinstance(inst, _real_float)

    def __subclasscheck__(cls, sub):
        return issubclass(sub, _real_float)

    def __eq__(cls, other):
        return other is cls or other is _real_float

    def __hash__(cls):
        return _real_hash(_real_float)

    def __repr__(cls):
        return "<class 'float'>"


class FloatShim(metaclass=_FloatMeta):
    """stands for the builtin `float` inside Geometry3D modules: identity on symbolic numbers (exact
    real semantics), the genuine float otherwise"""

    def __new__(cls, x=0.0):
        if core.ENG is not None and isinstance(x, (SymNum, SymAcos)):
            COUNTS['float_on_sym'] += 1
            return x
        if core.ENG is not None and isinstance(x, fp64.FPNum):
            return x
        return _real_float(x)


# ----------------------------------------------------------------------------- hash model
class SymHash(int):
    """int subclass with value 0 (every real set/dict then collides and falls back to the library's
    own __eq__, which forks symbolically) carrying the structure of what was hashed.  Equality of two
    SymHash values is structural: the perfect-hash abstraction."""

    def __new__(cls, kind, items):
        o = int.__new__(cls, 0)
        o.kind = kind            # 'atom' | 'sum' | 'prod'
        o.items = tuple(items)
        return o

    def __add__(s, o):
        if isinstance(o, SymHash):
            a = s.items if s.kind == 'sum' else (s,)
            b = o.items if o.kind == 'sum' else (o,)
            return SymHash('sum', a + b)
        if isinstance(o, int):
            if o == 0:
                return s
            return SymHash('sum', (s.items if s.kind == 'sum' else (s,)) + (int(o),))
        return NotImplemented
    __radd__ = __add__

    def __mul__(s, o):
        if isinstance(o, SymHash):
            a = s.items if s.kind == 'prod' else (s,)
            b = o.items if o.kind == 'prod' else (o,)
            return SymHash('prod', a + b)
        if isinstance(o, int):
            return SymHash('prod', (s.items if s.kind == 'prod' else (s,)) + (int(o),))
        return NotImplemented
    __rmul__ = __mul__

    def __round__(s, n=None):
        return s

    def __eq__(s, o):
        return heq(s, o)

    def __ne__(s, o):
        return not heq(s, o)

    def __hash__(s):
        return 0

    def __repr__(s):
        return 'H%s%r' % (s.kind, s.items)


HASH_TAU = Fraction(5, 10 ** 11)     # two hashed reals are "the same rounded value" iff |x-y| < 5e-11


def _tau():
    # with the exact rounding model the leaves are exact decimals: equal means equal
    return Fraction(1, 10 ** 14) if ROUND_EXACT[0] else HASH_TAU


def _round_info(x):
    """(poly, n) if x is exactly one decimal-rounding atom of the engine, else None"""
    if not isinstance(x, SymNum) or len(x.p.t) != 1:
        return None
    (m, c), = x.p.t.items()
    if c != 1 or len(m) != 1 or m[0][1] != 1:
        return None
    v = core.ENG.vars[m[0][0]]
    return v['info'] if v['kind'] == 'round' else None


def leaf_eq(a, b):
    if isinstance(a, SymHash) or isinstance(b, SymHash):
        if isinstance(a, SymHash) and isinstance(b, SymHash):
            return heq(a, b)
        return False
    if isinstance(a, str) or isinstance(b, str):
        return a == b
    if isinstance(a, SymNum) or isinstance(b, SymNum):
        for x, c in ((a, b), (b, a)):
            info = _round_info(x)
            if info is not None and isinstance(c, (int, _real_float, Fraction)):
                # exact semantics of  round(p, n) == c  for a concrete decimal c
                p, n = info
                c = Fraction(c)
                step = Fraction(1, 10 ** n)
                if (c / step).denominator != 1:
                    core.ENG.assume(core.Or(x - c >= step / 4, c - x >= step / 4))
                    return False
                px = SymNum(p)
                if bool(core.And(px >= c - step / 2, px < c + step / 2)):
                    core.ENG.assume(x == c)
                    return True
                core.ENG.assume(core.Or(x - c >= step, c - x >= step))
                return False
        d = a - b
        tau = _tau()
        if not isinstance(d, SymNum):
            return abs(d) < tau
        return bool(core.And(d < tau, d > -tau))
    if isinstance(a, (int, _real_float, Fraction)) and isinstance(b, (int, _real_float, Fraction)):
        return abs(Fraction(a) - Fraction(b)) < _tau()
    return a == b


def heq(a, b):
    if not (isinstance(a, SymHash) and isinstance(b, SymHash)):
        return False
    if a.kind != b.kind or len(a.items) != len(b.items):
        return False
    if a.kind == 'atom':
        for x, y in zip(a.items, b.items):
            if not leaf_eq(x, y):
                return False
        return True
    rest = list(b.items)
    for x in a.items:
        for j, y in enumerate(rest):
            if leaf_eq(x, y):
                del rest[j]
                break
        else:
            return False
    return True


def hash_shim(obj):
    if core.ENG is None:
        return _real_hash(obj)
    if isinstance(obj, tuple):
        return SymHash('atom', obj)
    if isinstance(obj, (str, int, _real_float, Fraction)):
        return _real_hash(obj)
    h = type(obj).__hash__(obj)
    return h


EXACT_CONCRETE_SQRT = [False]   # measure families: math.sqrt of a concrete non-square rational stays an exact atom
ROUND_EXACT = [False]      # C19 switches the exact decimal rounding model on


# Concrete (float) runs: every quantity the library rounds for a hash is monitored.  The properties admit a case only
# if no hashed quantity lies within float-noise distance (5e-13) of a decimal rounding boundary of the hash; a float
# replay that touched such a boundary is inadmissible (run.run_concrete reads BOUNDARY_HITS).
BOUNDARY_NOISE = 5e-13
BOUNDARY_HITS = []
BOUNDARY_MODE = [None]      # None | 'down' | 'up': snap every boundary-near value consistently to one side


def _boundary_monitor(x, n):
    try:
        s = abs(x) * 10.0 ** n
        if s < 2.0 ** 52:
            d = abs((s - _M['floor'](s)) - 0.5)
            if d <= BOUNDARY_NOISE * 10.0 ** n:
                BOUNDARY_HITS.append((x, n))
                if BOUNDARY_MODE[0] == 'down':
                    return x - math.copysign(2 * BOUNDARY_NOISE, x)
                if BOUNDARY_MODE[0] == 'up':
                    return x + math.copysign(2 * BOUNDARY_NOISE, x)
    except (OverflowError, ValueError, TypeError):
        pass
    return x


def round_shim(x, n=None):
    if core.ENG is None:
        if n is not None and isinstance(x, _real_float):
            x = _boundary_monitor(x, n)
        return _real_round(x, n) if n is not None else _real_round(x)
    if isinstance(x, SymNum) and ROUND_EXACT[0] and n is not None:
        return SymNum(Poly.var(core.ENG.round_atom(x.p, n)))
    if isinstance(x, (SymNum, SymHash)):
        return x
    if isinstance(x, _real_float) and n is not None:
        return Fraction(repr(_real_round(x, n)))
    return _real_round(x, n) if n is not None else _real_round(x)


# ----------------------------------------------------------------------------- installation
_installed = False


def install():
    """patch the math module (before Geometry3D is imported), import Geometry3D from /repo's working
    tree, and bind the shim names in every Geometry3D module"""
    global _installed
    for k, f in _MATH_PATCH.items():
        setattr(math, k, f)
    import Geometry3D  # noqa
    for name, mod in list(sys.modules.items()):
        if name == 'Geometry3D' or name.startswith('Geometry3D.'):
            if mod is None:
                continue
            d = mod.__dict__
            d['float'] = FloatShim
            d['hash'] = hash_shim
            d['round'] = round_shim
    logging.disable(logging.CRITICAL)
    _installed = True
    return Geometry3D

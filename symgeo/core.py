"""symgeo.core -- symbolic execution of the *real* Geometry3D code over exact reals.

A `SymNum` is a polynomial (exact Fraction coefficients) over
  * parameters (the universally quantified real inputs of a family),
  * sqrt atoms  r  with  r >= 0 and r*r == radicand   (r^2 is rewritten to the radicand),
  * quotient atoms q with  q*den == num               (den != 0 on the path).
Comparisons give `SymBool`; `SymBool.__bool__` is the only place a path forks.  The engine is
witness guided: it keeps a model of the path condition, follows the side the model takes and
asks the solver whether the other side is feasible (queued as a decision prefix, explored later
by re-execution).  Nothing here imports Geometry3D: the shims live in symgeo.shims.
"""
import time, os, itertools, threading
from decimal import Decimal, getcontext
from fractions import Fraction
import builtins, math as _math
import z3

_real_float = builtins.float
_real_round = builtins.round
_real_hash = builtins.hash
_real_abs = builtins.abs
_math_sqrt = _math.sqrt        # captured before symgeo.shims patches the math module


getcontext().prec = 90
_EPS_AMBIG = Decimal(10) ** -40


class _Ambiguous(Exception):
    pass


def _dec(x):
    if isinstance(x, Decimal):
        return x
    if isinstance(x, Fraction):
        return Decimal(x.numerator) / Decimal(x.denominator)
    return Decimal(x)


def _isqrt_frac(fr):
    import math
    n, d = fr.numerator, fr.denominator
    rn, rd = math.isqrt(n), math.isqrt(d)
    if rn * rn == n and rd * rd == d:
        return Fraction(rn, rd)
    return None


def _num_sqrt(x):
    if isinstance(x, Fraction):
        if x < 0:
            raise _Ambiguous()
        r = _isqrt_frac(x)
        if r is not None:
            return r
        return _dec(x).sqrt()
    if x < 0:
        if x > -_EPS_AMBIG:
            return Decimal(0)
        raise _Ambiguous()
    return x.sqrt()


def _num_div(n, d):
    if isinstance(n, Fraction) and isinstance(d, Fraction):
        return n / d
    return _dec(n) / _dec(d)


# ----------------------------------------------------------------------------- control flow
class PathAbort(BaseException):
    """base of engine control-flow exceptions (BaseException so that `except Exception` in the
    code under test or in harnesses never swallows them)"""


class Infeasible(PathAbort):
    pass


class Inconclusive(PathAbort):
    pass


class Budget(PathAbort):
    pass


class Unsupported(PathAbort):
    pass


class Inadmissible(PathAbort):
    """concrete mode: the input lies inside a tolerance band (outside the property's domain)"""


# ----------------------------------------------------------------------------- polynomials
class Poly:
    """immutable sparse polynomial: {monomial: Fraction}, monomial = tuple of (vid, exp), sorted"""
    __slots__ = ('t', '_key', '_z')

    def __init__(self, terms):
        self.t = terms
        self._key = None
        self._z = None

    @staticmethod
    def const(c):
        c = Fraction(c)
        return Poly({(): c} if c else {})

    @staticmethod
    def var(vid):
        return Poly({((vid, 1),): Fraction(1)})

    def is_const(self):
        return not self.t or (len(self.t) == 1 and () in self.t)

    def const_value(self):
        return self.t.get((), Fraction(0))

    def key(self):
        if self._key is None:
            self._key = tuple(sorted(self.t.items()))
        return self._key

    def add(self, o):
        r = dict(self.t)
        for m, c in o.t.items():
            v = r.get(m, 0) + c
            if v:
                r[m] = v
            else:
                r.pop(m, None)
        return Poly(r)

    def scale(self, c):
        if not c:
            return Poly({})
        return Poly({m: v * c for m, v in self.t.items()})

    def neg(self):
        return Poly({m: -v for m, v in self.t.items()})

    def vars(self):
        s = set()
        for m in self.t:
            for v, _ in m:
                s.add(v)
        return s

    def degree(self):
        return max((sum(e for _, e in m) for m in self.t), default=0)

    def lead(self):
        """coefficient of the largest monomial (deterministic)"""
        if not self.t:
            return Fraction(0)
        return self.t[max(self.t)]


def _mono_mul(a, b):
    if not a:
        return b
    if not b:
        return a
    d = dict(a)
    for v, e in b:
        d[v] = d.get(v, 0) + e
    return tuple(sorted(d.items()))


# ----------------------------------------------------------------------------- engine
class Stats:
    def __init__(self):
        self.queries = 0
        self.sat = 0
        self.unsat = 0
        self.unknown = 0
        self.solver_s = 0.0
        self.branches = 0
        self.cache_hits = 0
        self.fallback_nlsat = 0
        self.fallback_cvc5 = 0
        self.box_decided = 0

    def merge(self, o):
        for k, v in o.__dict__.items():
            setattr(self, k, getattr(self, k) + v)

    def as_dict(self):
        d = dict(self.__dict__)
        d['solver_s'] = round(d['solver_s'], 3)
        return d


class Engine:
    """one instance per explored path"""

    def __init__(self, prefix=(), timeout_ms=3000, slow_timeout_ms=20000, deadline=None, use_cvc5=True):
        self.prefix = list(prefix)
        self.decisions = []
        self.worklist = []          # (prefix, unknown_flag)
        self.timeout_ms = timeout_ms
        self.slow_timeout_ms = slow_timeout_ms
        self.deadline = deadline
        self.use_cvc5 = use_cvc5
        self.solver = z3.Solver()
        self.solver.set('timeout', timeout_ms)
        self.pc = []                # z3 BoolRefs (kept alive)
        self.model = None
        self.assign = None
        self.valcache = {}
        self.model_stale = True
        self.vars = []              # vid -> dict(name, z, kind, info)
        self.params = {}            # name -> vid
        self.cache = {}             # canonical cond key -> bool
        self.cache_ast = {}         # ast id -> (bool, ast)  (ast kept alive)
        self.pz_cache = {}
        self.ivcache = {}
        self.sqrt_memo = {}         # radicand key -> vid
        self.div_memo = {}          # (num key, den key) -> vid
        self.stats = Stats()
        self.unknown_branches = 0
        self.forced_unknown = False
        self.outcome = []
        self.notes = []
        self.fp_mode = False
        self.has_int = False

    # ---- variables
    def new_var(self, name, kind, info=None):
        vid = len(self.vars)
        z = z3.Real('%s!%d' % (name, vid) if kind != 'param' else name)
        self.vars.append(dict(name=name, z=z, kind=kind, info=info))
        return vid

    def param(self, name, lo=None, hi=None):
        if name in self.params:
            return SymNum(Poly.var(self.params[name]))
        vid = self.new_var(name, 'param', (lo, hi))
        self.params[name] = vid
        self.model_stale = True
        z = self.vars[vid]['z']
        if lo is not None:
            self._add(z >= _q(lo))
        if hi is not None:
            self._add(z <= _q(hi))
        return SymNum(Poly.var(vid))

    # ---- polynomial -> z3
    def pz(self, p):
        if p._z is not None:
            return p._z
        k = p.key()
        z = self.pz_cache.get(k)
        if z is not None:
            p._z = z
            return z
        terms = []
        for m, c in sorted(p.t.items()):
            f = None
            for v, e in m:
                zv = self.vars[v]['z']
                for _ in range(e):
                    f = zv if f is None else f * zv
            if f is None:
                terms.append(_q(c))
            elif c == 1:
                terms.append(f)
            else:
                terms.append(_q(c) * f)
        if not terms:
            z = z3.RealVal(0)
        elif len(terms) == 1:
            z = terms[0]
        else:
            z = z3.Sum(terms)
        p._z = z
        self.pz_cache[k] = z
        return z

    # ---- solver plumbing
    def _add(self, c):
        self.pc.append(c)
        self.solver.add(c)

    def _tick(self):
        if self.deadline is not None and time.time() > self.deadline:
            raise Budget('family time budget exhausted')

    def check(self, *extra):
        """returns 'sat' | 'unsat' | 'unknown'; on sat self._last_model is set"""
        self._tick()
        st = self.stats
        st.queries += 1
        t = time.time()
        res = 'unknown'
        if self.fp_mode:
            # one-shot solver per query: z3's non-incremental pipeline (simplify, bit-blast, SAT) is far stronger on
            # QF_BVFP than the incremental core
            s1 = z3.Solver()
            s1.set('timeout', self.timeout_ms)
            for c in self.pc:
                s1.add(c)
            for c in extra:
                s1.add(c)
            res = str(s1.check())
            if res == 'sat':
                self._last_model = s1.model()
        elif Engine.prefer_nlsat < 2:
            timer = threading.Timer(self.timeout_ms / 1000.0 + 2.0, z3.main_ctx().interrupt)
            timer.start()
            try:
                r = self.solver.check(*extra)
            except z3.Z3Exception:
                r = 'unknown'
            finally:
                timer.cancel()
            res = str(r)
            if res == 'sat':
                self._last_model = self.solver.model()
            elif res == 'unknown':
                Engine.prefer_nlsat += 1
                res = self._fallback(extra)
        else:
            res = self._fallback(extra, first=True)
        dt = time.time() - t
        st.solver_s += dt
        if res == 'unknown' and os.environ.get('SYMGEO_DEBUG'):
            import traceback
            print('   UNKNOWN on extra=%s' % (str(extra)[:600],), flush=True)
            print('   at ' + ' <- '.join('%s:%d' % (os.path.basename(f.filename), f.lineno) for f in traceback.extract_stack()[-9:-1] if 'Geometry3D' in f.filename), flush=True)
        if dt > 2 and os.environ.get('SYMGEO_DEBUG'):
            print('   slow query %.1fs -> %s (pc=%d, nlsat=%d cvc5=%d)' % (dt, res, len(self.pc), st.fallback_nlsat, st.fallback_cvc5), flush=True)
        setattr(st, res, getattr(st, res) + 1)
        return res

    prefer_nlsat = 0      # process-wide: after two 'unknown' from the incremental core, nlsat goes first

    def _nlsat(self, extra, timeout_ms):
        s = z3.Tactic('qfnra-nlsat').solver()
        s.set('timeout', timeout_ms)
        for c in self.pc:
            s.add(c)
        for c in extra:
            s.add(c)
        timer = threading.Timer(timeout_ms / 1000.0 + 1.0, z3.main_ctx().interrupt)
        timer.start()
        try:
            r = str(s.check())
        except z3.Z3Exception:
            r = 'unknown'
        finally:
            timer.cancel()
        if r == 'sat':
            try:
                self._last_model = s.model()
            except z3.Z3Exception:
                r = 'unknown'
        return r

    def _fallback(self, extra, first=False):
        st = self.stats

        st.fallback_nlsat += 1
        r = self._nlsat(extra, self.slow_timeout_ms)
        if r in ('sat', 'unsat'):
            return r
        if first:
            rr = self.solver.check(*extra)
            if str(rr) == 'sat':
                self._last_model = self.solver.model()
                return 'sat'
            if str(rr) == 'unsat':
                return 'unsat'
        if self.use_cvc5:
            st.fallback_cvc5 += 1
            r = _cvc5_check(self.pc + list(extra), self.slow_timeout_ms)
            if r == 'unsat':
                return r
            # a cvc5 'sat' carries no z3 model: only usable as "feasible", handled by caller
            if r == 'sat':
                self._last_model = None
                return 'sat'
        return 'unknown'

    # ---- parameter assignment (the "model" the path follows) and numeric evaluation
    def _read_assignment(self, model):
        a = {}
        for name, vid in self.params.items():
            v = self.vars[vid]
            val = model.eval(v['z'], model_completion=True)
            if v['kind'] == 'bv':
                a[vid] = Fraction(val.as_signed_long())
                continue
            val = z3.simplify(val)
            if z3.is_rational_value(val):
                a[vid] = Fraction(val.numerator_as_long(), val.denominator_as_long())
            elif z3.is_algebraic_value(val):
                ap = val.approx(70)
                a[vid] = Decimal(ap.numerator_as_long()) / Decimal(ap.denominator_as_long())
            else:
                raise Inconclusive('cannot read model value %s' % val)
        self.assign = a
        self.valcache = {}
        self.model_stale = False

    def get_assignment(self):
        if self.model_stale or self.assign is None:
            r = self.check()
            if r == 'unsat':
                raise Infeasible()
            if r != 'sat' or self._last_model is None:
                raise Inconclusive('path condition undecided (%s)' % r)
            self.model = self._last_model
            self._read_assignment(self.model)
        return self.assign

    def get_model(self):
        """a z3 model of the whole path condition (one solver call); used for witnesses"""
        r = self.check()
        if r == 'unsat':
            raise Infeasible()
        if r != 'sat' or self._last_model is None:
            raise Inconclusive('path condition undecided (%s)' % r)
        self.model = self._last_model
        self._read_assignment(self.model)
        return self.model

    def witness(self):
        """parameter values satisfying the path condition"""
        a = self.get_assignment()
        out = {}
        for name, vid in self.params.items():
            v = a[vid]
            out[name] = v if isinstance(v, Fraction) else Fraction(v)
        return out

    def value(self, vid):
        """numeric value of a variable under the current assignment: Fraction (exact) or Decimal (approximate)"""
        c = self.valcache
        if vid in c:
            return c[vid]
        v = self.vars[vid]
        k = v['kind']
        if k in ('param', 'bv'):
            r = self.assign[vid]
        elif k == 'sqrt':
            x = self.peval(v['info'])
            r = _num_sqrt(x)
        elif k == 'isqrt':
            x = self.value(v['info'])
            if x == 0:
                raise _Ambiguous()
            r = _num_div(Fraction(1), x) if isinstance(x, Fraction) else 1 / x
        elif k == 'quo':
            n, d = self.peval(v['info'][0]), self.peval(v['info'][1])
            if d == 0:
                raise _Ambiguous()
            r = _num_div(n, d)
        elif k == 'round':
            import math
            x = self.peval(v['info'][0])
            sc = 10 ** v['info'][1]
            if isinstance(x, Decimal):
                y = x * sc + Decimal('0.5')
                fl = y.to_integral_value(rounding='ROUND_FLOOR')
                if abs(y - fl) < _EPS_AMBIG or abs(y - fl - 1) < _EPS_AMBIG:
                    raise _Ambiguous()
                r = Fraction(int(fl), sc)
            else:
                r = Fraction(math.floor(x * sc + Fraction(1, 2)), sc)
        elif k == 'ite':
            t, pa, pb = v['info']
            b = self.teval(t)
            if b is None:
                raise _Ambiguous()
            r = self.peval(pa if b else pb)
        else:
            raise _Ambiguous()
        c[vid] = r
        return r

    def peval(self, p):
        exact = Fraction(0)
        approx = None
        for m, cf in p.t.items():
            term = cf
            for vid, e in m:
                x = self.value(vid)
                if isinstance(x, Decimal) and not isinstance(term, Decimal):
                    term = _dec(term)
                elif isinstance(term, Decimal) and not isinstance(x, Decimal):
                    x = _dec(x)
                term = term * (x ** e if e != 1 else x)
            if isinstance(term, Decimal):
                approx = term if approx is None else approx + term
            else:
                exact += term
        if approx is None:
            return exact
        return approx + _dec(exact)

    def teval(self, t):
        """three-valued evaluation of a SymBool tree: True / False / None (too close to call numerically)"""
        k = t[0]
        if k == 'atom':
            v = self.peval(t[1])
            op = t[2]
            if isinstance(v, Decimal):
                if abs(v) < _EPS_AMBIG:
                    return None
                return (v < 0) if op in ('<', '<=') else False
            return v < 0 if op == '<' else (v <= 0 if op == '<=' else v == 0)
        if k == 'not':
            r = self.teval(t[1])
            return None if r is None else (not r)
        if k == 'and':
            res = True
            for x in t[1]:
                r = self.teval(x)
                if r is False:
                    return False
                if r is None:
                    res = None
            return res
        if k == 'or':
            res = False
            for x in t[1]:
                r = self.teval(x)
                if r is True:
                    return True
                if r is None:
                    res = None
            return res
        if k == 'iff':
            a, b = self.teval(t[1]), self.teval(t[2])
            if a is None or b is None:
                return None
            return a == b
        if k == 'const':
            return t[1]
        return None

    # ---- interval pre-check over the parameter box (sound: the path condition implies the box)
    def var_ival(self, vid):
        c = self.ivcache
        if vid in c:
            return c[vid]
        v = self.vars[vid]
        k = v['kind']
        r = None
        if k == 'param':
            lo, hi = v['info'] if v['info'] else (None, None)
            if lo is not None and hi is not None:
                r = (float(lo), float(hi))
        elif k == 'bv':
            r = (float(v['info'][0]), float(v['info'][1]))
        elif k == 'sqrt':
            iv = self.ival(v['info'])
            if iv is not None and iv[1] >= 0:
                r = (_math_sqrt(max(iv[0], 0.0)) * (1 - 1e-12), _math_sqrt(iv[1]) * (1 + 1e-12) + 1e-300)
        elif k == 'isqrt':
            iv = self.var_ival(v['info'])
            if iv is not None and iv[0] > 0:
                r = (1.0 / iv[1] * (1 - 1e-12), 1.0 / iv[0] * (1 + 1e-12))
        elif k == 'quo':
            n, d = self.ival(v['info'][0]), self.ival(v['info'][1])
            if n is not None and d is not None and (d[0] > 0 or d[1] < 0):
                cands = [n[0] / d[0], n[0] / d[1], n[1] / d[0], n[1] / d[1]]
                lo, hi = min(cands), max(cands)
                w = (abs(lo) + abs(hi)) * 1e-12
                r = (lo - w, hi + w)
        elif k == 'round':
            iv = self.ival(v['info'][0])
            if iv is not None:
                st = 0.5 * 10.0 ** -v['info'][1]
                r = (iv[0] - st * 1.000001, iv[1] + st * 1.000001)
        elif k == 'ite':
            a, b = self.ival(v['info'][1]), self.ival(v['info'][2])
            if a is not None and b is not None:
                r = (min(a[0], b[0]), max(a[1], b[1]))
        c[vid] = r
        return r

    def ival(self, p):
        """float enclosure of a polynomial over the parameter box, or None"""
        tlo = thi = 0.0
        mag = 0.0
        for m, cf in p.t.items():
            lo = hi = float(cf)
            for vid, e in m:
                iv = self.var_ival(vid)
                if iv is None:
                    return None
                for _ in range(e):
                    cands = (lo * iv[0], lo * iv[1], hi * iv[0], hi * iv[1])
                    lo, hi = min(cands), max(cands)
            tlo += lo
            thi += hi
            mag += max(abs(lo), abs(hi))
        w = mag * 1e-11 + 1e-300
        if tlo != tlo or thi != thi or mag == float('inf'):
            return None
        return tlo - w, thi + w

    def box_decides(self, tree):
        """True / False if the comparison has that truth value everywhere on the parameter box, else None"""
        if tree[0] == 'not':
            r = self.box_decides(tree[1])
            return None if r is None else (not r)
        if tree[0] != 'atom':
            return None
        iv = self.ival(tree[1])
        if iv is None:
            return None
        lo, hi = iv
        op = tree[2]
        if op == '<':
            return True if hi < 0 else (False if lo >= 0 else None)
        if op == '<=':
            return True if hi <= 0 else (False if lo > 0 else None)
        return False if (lo > 0 or hi < 0) else None

    def eval_cond(self, sb):
        """truth of a SymBool under the current assignment, or None"""
        self.get_assignment()
        try:
            return self.teval(sb.tree)
        except _Ambiguous:
            return None

    def eval_model(self, cond):
        """z3-level evaluation (used only for conditions that are not SymBool trees: the FP64 domain)"""
        if self.model_stale or self.model is None:
            self.get_model()
        v = self.model.eval(cond, model_completion=True)
        if z3.is_true(v):
            return True
        if z3.is_false(v):
            return False
        v = z3.simplify(v)
        if z3.is_true(v):
            return True
        if z3.is_false(v):
            return False
        return None

    # ---- branching
    def decide(self, sb, key=None):
        """fork point.  sb: SymBool (tree) -- or a raw z3 BoolRef (FP64 domain)"""
        raw = not isinstance(sb, SymBool)
        cond = sb if raw else None
        if raw:
            if z3.is_true(cond):
                return True
            if z3.is_false(cond):
                return False
        else:
            key = sb.key
        self.stats.branches += 1
        if key is not None:
            if key in self.cache:
                self.stats.cache_hits += 1
                return self.cache[key]
        else:
            ident = cond.get_id() if raw else _tree_key(sb.tree)
            if ident in self.cache_ast:
                self.stats.cache_hits += 1
                return self.cache_ast[ident][0]
        d = self._decide(sb, raw)
        if key is not None:
            self.cache[key] = d
            nk = _neg_key(key)
            if nk is not None:
                self.cache[nk] = not d
        else:
            self.cache_ast[ident] = (d, sb)
        return d

    def _decide(self, sb, raw):
        cond = sb if raw else sb.z
        i = len(self.decisions)
        if i < len(self.prefix):
            d = self.prefix[i]
            self.decisions.append(d)
            self._add(cond if d else z3.Not(cond))
            if not self.model_stale and self.assign is not None and not raw:
                try:
                    v = self.teval(sb.tree)
                except _Ambiguous:
                    v = None
                if v is not d:
                    self.model_stale = True
            else:
                self.model_stale = True
            return d
        side = self.eval_model(cond) if raw else self.eval_cond(sb)
        if side is None:
            r = self.check(cond)
            if r == 'unknown':
                raise Inconclusive('branch condition undecided')
            side = (r == 'sat')
            if side and self._last_model is not None:
                self.model = self._last_model
                self._read_assignment(self.model)
            elif side:
                self.model_stale = True
        other = z3.Not(cond) if side else cond
        bd = None if raw else self.box_decides(sb.tree)
        if bd is not None and bd == side:
            ro = 'unsat'           # the other side is impossible already on the parameter box (interval arithmetic)
            self.stats.box_decided += 1
        else:
            ro = self.check(other)
        if ro == 'sat':
            self.worklist.append((self.decisions + [not side], False))
        elif ro == 'unknown':
            self.unknown_branches += 1
            self.worklist.append((self.decisions + [not side], True))
        self.decisions.append(side)
        self._add(cond if side else z3.Not(cond))
        return side

    def assume(self, cond, fresh=False):
        """add a constraint without forking (admissibility).  cond: SymBool or raw z3"""
        if isinstance(cond, SymBool):
            self._add(cond.z)
            if not self.model_stale and self.assign is not None:
                try:
                    v = self.teval(cond.tree)
                except _Ambiguous:
                    v = None
                if v is not True:
                    self.model_stale = True
            return
        if z3.is_true(cond):
            return
        self._add(cond)
        self.model_stale = True

    def assume_z(self, cond, keeps_assignment=False):
        """definition of a fresh atom: does not invalidate the parameter assignment"""
        self._add(cond)
        if not keeps_assignment:
            self.model_stale = True

    # ---- atoms
    def sqrt_atom(self, rad):
        k = rad.key()
        if k in self.sqrt_memo:
            return self.sqrt_memo[k]
        vid = self.new_var('sqrt', 'sqrt', rad)
        self.sqrt_memo[k] = vid
        z = self.vars[vid]['z']
        self.assume_z(z3.And(z >= 0, z * z == self.pz(rad)), keeps_assignment=True)
        return vid

    def isqrt_atom(self, svid):
        """1/r for a sqrt atom r (r != 0 on the path): atom ir with ir * r == 1; products ir*r are rewritten to 1"""
        k = ('isqrt', svid)
        if k in self.div_memo:
            return self.div_memo[k]
        vid = self.new_var('isqrt', 'isqrt', svid)
        self.div_memo[k] = vid
        self.vars[svid]['inv'] = vid
        z = self.vars[vid]['z']
        self.assume_z(z3.And(z * self.vars[svid]['z'] == 1, z > 0), keeps_assignment=True)
        return vid

    def div_atom(self, num, den):
        k = (num.key(), den.key())
        if k in self.div_memo:
            return self.div_memo[k]
        vid = self.new_var('quo', 'quo', (num, den))
        self.div_memo[k] = vid
        z = self.vars[vid]['z']
        self.assume_z(z * self.pz(den) == self.pz(num), keeps_assignment=True)
        return vid

    def round_atom(self, p, n):
        """decimal rounding of p to n digits as a fresh real variable z with |z - p| <= 10^-n / 2.  The grid membership of
        z is not encoded (no integer terms in the path condition); a comparison of z with a *concrete* decimal c is made
        exact by shims.leaf_eq (fork on "p lies in c's rounding cell", then z == c or |z - c| >= 10^-n)."""
        k = ('round', p.key(), n)
        if k in self.div_memo:
            return self.div_memo[k]
        vid = self.new_var('rnd', 'round', (p, n))
        self.div_memo[k] = vid
        z = self.vars[vid]['z']
        h = z3.Q(1, 2 * 10 ** n)
        zp = self.pz(p)
        self.assume_z(z3.And(z - zp <= h, zp - z <= h), keeps_assignment=True)
        return vid

    # ---- polynomial multiplication with r^2 -> radicand
    def pmul(self, a, b):
        if not a.t or not b.t:
            return Poly({})
        if a.is_const():
            return b.scale(a.const_value())
        if b.is_const():
            return a.scale(b.const_value())
        r = {}
        extra = None
        for ma, ca in a.t.items():
            for mb, cb in b.t.items():
                m = _mono_mul(ma, mb)
                c = ca * cb
                red = self._reduce(m)
                if red is None:
                    v = r.get(m, 0) + c
                    if v:
                        r[m] = v
                    else:
                        r.pop(m, None)
                else:
                    extra = red.scale(c) if extra is None else extra.add(red.scale(c))
        p = Poly(r)
        if extra is not None:
            p = p.add(extra)
        return p

    def _reduce(self, m):
        """if monomial m contains a sqrt atom to a power >= 2 (r^2 -> radicand) or a sqrt atom together with its
        inverse atom (ir*r -> 1), return the equivalent reduced Poly"""
        for idx, (v, e) in enumerate(m):
            kind = self.vars[v]['kind']
            if e >= 2 and kind == 'sqrt':
                rad = self.vars[v]['info']
                rest = list(m[:idx]) + ([(v, e - 2)] if e > 2 else []) + list(m[idx + 1:])
                rest = tuple(rest)
                rr = self._reduce(rest)
                if rr is None:
                    rr = Poly({rest: Fraction(1)})
                return self.pmul(rr, rad)
            if kind == 'isqrt':
                r = self.vars[v]['info']
                for jdx, (w, f) in enumerate(m):
                    if w == r:
                        d = dict(m)
                        d[v] -= 1
                        d[w] -= 1
                        rest = tuple(sorted((a, b) for a, b in d.items() if b > 0))
                        red = self._reduce(rest)
                        return red if red is not None else Poly({rest: Fraction(1)})
        return None


ENG = None          # the engine of the path currently executing (None => concrete / pass-through mode)


def eng():
    return ENG


def set_engine(e):
    global ENG
    ENG = e


def _q(x):
    if isinstance(x, Fraction):
        return z3.Q(x.numerator, x.denominator)
    if isinstance(x, bool):
        raise Unsupported('bool as number')
    if isinstance(x, int):
        return z3.RealVal(x)
    if isinstance(x, _real_float):
        n, d = x.as_integer_ratio()
        return z3.Q(n, d)
    raise Unsupported('numeric type %r' % type(x))


def _neg_key(key):
    op, pk, flag = key
    if op == '==':
        return ('==', pk, not flag)
    npk = tuple((m, -c) for m, c in pk)
    return ('<=' if op == '<' else '<', npk, True)


_CVC5_SCRIPT = r"""
import sys, cvc5
text = sys.stdin.read()
tm = cvc5.TermManager() if hasattr(cvc5, 'TermManager') else None
slv = cvc5.Solver(tm) if tm is not None else cvc5.Solver()
slv.setOption('tlimit-per', sys.argv[1])
slv.setLogic('QF_NRA')
parser = cvc5.InputParser(slv)
parser.setStringInput(cvc5.InputLanguage.SMT_LIB_2_6, text, 'q')
sm = parser.getSymbolManager()
res = 'unknown'
while True:
    cmd = parser.nextCommand()
    if cmd.isNull():
        break
    o = str(cmd.invoke(slv, sm)).strip()
    if '(error' in o:
        res = 'unknown'
        break
    if o in ('sat', 'unsat', 'unknown'):
        res = o
print('RESULT', res)
"""


def _cvc5_check(assertions, timeout_ms):
    """last resort: hand the query to cvc5 (SMT-LIB2 text) in a child process with a hard wall-clock limit.
    Only 'unsat' / 'sat' verdicts are used; anything else (error, timeout, crash) is 'unknown'."""
    import subprocess, sys
    try:
        s = z3.Solver()
        for a in assertions:
            s.add(a)
        text = s.to_smt2().replace('(set-info :status unknown)', '')
        if 'to_int' in text or 'BitVec' in text or 'FloatingPoint' in text:
            return 'unknown'
        p = subprocess.run([sys.executable, '-c', _CVC5_SCRIPT, str(int(timeout_ms))], input=text, capture_output=True, text=True,
                           timeout=timeout_ms / 1000.0 + 5)
        for line in p.stdout.splitlines():
            if line.startswith('RESULT '):
                r = line.split()[1]
                return r if r in ('sat', 'unsat') else 'unknown'
        return 'unknown'
    except Exception:
        return 'unknown'


# ----------------------------------------------------------------------------- numbers
_NUM = (int, _real_float, Fraction)


def _poly_of(x):
    if isinstance(x, SymNum):
        return x.p
    if isinstance(x, bool):
        raise Unsupported('bool arithmetic with symbolic number')
    if isinstance(x, int):
        return Poly.const(x)
    if isinstance(x, _real_float):
        if x != x or x in (_math.inf, -_math.inf):
            raise Unsupported('nan/inf')
        return Poly.const(Fraction(x))
    if isinstance(x, Fraction):
        return Poly.const(x)
    return None


def _collapse(fr):
    """a term that became constant goes back to an ordinary *exact* Python number.  (Returning a float here, even for
    dyadic values, lets later float x Fraction arithmetic outside the engine round: observed as a 4e-17 discrepancy
    between the symbolic and the concrete evaluation of the same oracle formula.)"""
    return fr


def _wrap(p):
    if p.is_const():
        return _collapse(p.const_value())
    return SymNum(p)


class SymBool:
    """a solver-level truth value.  bool() forks the path; & | ~ and the helpers And/Or/Not/Iff build formulas
    without forking.  It is a small expression tree ('atom', poly, op) | ('not', t) | ('and', ts) | ('or', ts) |
    ('iff', a, b) | ('z3', expr): evaluable numerically under a parameter assignment, translated to z3 lazily."""
    __slots__ = ('tree', 'key', '_z')

    def __init__(self, tree, key=None, z=None):
        self.tree = tree
        self.key = key
        self._z = z

    @property
    def z(self):
        if self._z is None:
            self._z = _tree_z(self.tree)
        return self._z

    def __bool__(self):
        e = ENG
        if self.key is not None and self.key in e.cache:
            e.stats.branches += 1
            e.stats.cache_hits += 1
            return e.cache[self.key]
        return e.decide(self)

    def __and__(self, o):
        return And(self, o)
    __rand__ = __and__

    def __or__(self, o):
        return Or(self, o)
    __ror__ = __or__

    def __invert__(self):
        return Not(self)

    def __repr__(self):
        return 'SymBool(%s)' % self.z


def _tree_z(t):
    k = t[0]
    if k == 'atom':
        zp = ENG.pz(t[1])
        op = t[2]
        return (zp < 0) if op == '<' else ((zp <= 0) if op == '<=' else (zp == 0))
    if k == 'not':
        return z3.Not(_tree_z(t[1]))
    if k == 'and':
        return z3.And([_tree_z(x) for x in t[1]])
    if k == 'or':
        return z3.Or([_tree_z(x) for x in t[1]])
    if k == 'iff':
        return _tree_z(t[1]) == _tree_z(t[2])
    if k == 'const':
        return z3.BoolVal(t[1])
    if k == 'z3':
        return t[1]
    raise Unsupported('tree %r' % (k,))


def _tree_key(t):
    k = t[0]
    if k == 'atom':
        return ('a', t[2], t[1].key())
    if k == 'not':
        return ('n', _tree_key(t[1]))
    if k in ('and', 'or'):
        return (k, tuple(_tree_key(x) for x in t[1]))
    if k == 'iff':
        return ('i', _tree_key(t[1]), _tree_key(t[2]))
    if k == 'const':
        return ('c', t[1])
    return ('z', t[1].get_id())


def _tr(b):
    if isinstance(b, SymBool):
        return b.tree
    if isinstance(b, bool):
        return ('const', b)
    raise Unsupported('boolean operand %r' % type(b))


def _cmp(p, op):
    """p (op) 0 with op in '<', '<=', '=='  ->  bool or SymBool with canonical key"""
    if p.is_const():
        c = p.const_value()
        return c < 0 if op == '<' else (c <= 0 if op == '<=' else c == 0)
    l = p.lead()
    if op == '==':
        pn = p.scale(1 / l)
        return SymBool(('atom', pn, '=='), ('==', pn.key(), True))
    pn = p.scale(1 / _real_abs(l))
    return SymBool(('atom', pn, op), (op, pn.key(), True))


class SymNum:
    __slots__ = ('p',)

    def __new__(cls, x=0):
        if isinstance(x, SymNum):
            return x
        if isinstance(x, Poly):
            o = object.__new__(cls)
            o.p = x
            return o
        p = _poly_of(x)
        if p is None:
            raise Unsupported('SymNum(%r)' % type(x))
        return x          # a concrete number stays an ordinary Python number

    # arithmetic
    def __add__(s, o):
        q = _poly_of(o)
        if q is None:
            return NotImplemented
        return _wrap(s.p.add(q))
    __radd__ = __add__

    def __sub__(s, o):
        q = _poly_of(o)
        if q is None:
            return NotImplemented
        return _wrap(s.p.add(q.neg()))

    def __rsub__(s, o):
        q = _poly_of(o)
        if q is None:
            return NotImplemented
        return _wrap(q.add(s.p.neg()))

    def __mul__(s, o):
        q = _poly_of(o)
        if q is None:
            return NotImplemented
        return _wrap(ENG.pmul(s.p, q))
    __rmul__ = __mul__

    def __neg__(s):
        return SymNum(s.p.neg())

    def __pos__(s):
        return s

    def __truediv__(s, o):
        q = _poly_of(o)
        if q is None:
            return NotImplemented
        return _div(s.p, q)

    def __rtruediv__(s, o):
        q = _poly_of(o)
        if q is None:
            return NotImplemented
        return _div(q, s.p)

    def __pow__(s, e):
        if isinstance(e, SymNum):
            raise Unsupported('symbolic exponent')
        if e == 2:
            return _wrap(ENG.pmul(s.p, s.p))
        if e == 0.5:
            return sym_sqrt(s)
        if e == 1:
            return s
        if isinstance(e, int) and 2 < e <= 6:
            r = s.p
            for _ in range(e - 1):
                r = ENG.pmul(r, s.p)
            return _wrap(r)
        if e == -1:
            return _div(Poly.const(1), s.p)
        raise Unsupported('pow %r' % (e,))

    def __rpow__(s, b):
        raise Unsupported('symbolic exponent')

    def __abs__(s):
        if s >= 0:
            return s
        return -s

    # comparisons
    def __lt__(s, o):
        q = _poly_of(o)
        if q is None:
            return NotImplemented
        return _cmp(s.p.add(q.neg()), '<')

    def __le__(s, o):
        q = _poly_of(o)
        if q is None:
            return NotImplemented
        return _cmp(s.p.add(q.neg()), '<=')

    def __gt__(s, o):
        q = _poly_of(o)
        if q is None:
            return NotImplemented
        return _cmp(q.add(s.p.neg()), '<')

    def __ge__(s, o):
        q = _poly_of(o)
        if q is None:
            return NotImplemented
        return _cmp(q.add(s.p.neg()), '<=')

    def __eq__(s, o):
        q = _poly_of(o)
        if q is None:
            return False
        return _cmp(s.p.add(q.neg()), '==')

    def __ne__(s, o):
        q = _poly_of(o)
        if q is None:
            return True
        r = _cmp(s.p.add(q.neg()), '==')
        if isinstance(r, bool):
            return not r
        return SymBool(('not', r.tree), ('==', r.key[1], False))

    def __hash__(s):
        return 0

    def __float__(s):
        raise Unsupported('float() of a symbolic number through the C API')

    def __int__(s):
        raise Unsupported('int() of a symbolic number')

    def __bool__(s):
        return bool(s != 0)

    def __format__(s, spec):
        return '<sym>'

    def __repr__(s):
        return 'Sym(%s)' % (ENG.pz(s.p) if ENG is not None else s.p.t)

    def __round__(s, n=None):
        return s

    def __deepcopy__(s, memo):
        return s

    def __copy__(s):
        return s

    def __reduce__(s):
        raise Unsupported('pickling a symbolic number')

    @property
    def z(s):
        return ENG.pz(s.p)


def _div(num, den):
    if den.is_const():
        c = den.const_value()
        if c == 0:
            raise ZeroDivisionError('division by zero')
        return _wrap(num.scale(1 / c))
    e = ENG
    if bool(_cmp(den, '==')):
        raise ZeroDivisionError('division by zero')
    if not num.t:
        return 0.0
    # num == c*den ?
    if len(num.t) == len(den.t):
        m0 = max(den.t)
        if m0 in num.t:
            c = num.t[m0] / den.t[m0]
            if not num.add(den.scale(-c)).t:
                return _collapse(c)
    # division by a monomial c*r1*r2*.. of sqrt atoms: multiply by the inverse atoms (ir*r rewrites to 1); an atom with a
    # constant radicand f is inverted as r/f
    if len(den.t) == 1:
        (m, c), = den.t.items()
        if m and all(ex == 1 and e.vars[v]['kind'] == 'sqrt' for v, ex in m):
            res = num.scale(1 / c)
            for v, ex in m:
                rad = e.vars[v]['info']
                if rad.is_const():
                    res = e.pmul(res, Poly.var(v)).scale(1 / rad.const_value())
                else:
                    res = e.pmul(res, Poly.var(e.isqrt_atom(v)))
            return _wrap(res)
    vid = e.div_atom(num, den)
    return SymNum(Poly.var(vid))


def _square_form(p):
    """if p == a * L^2 with L an affine form in the engine variables (a rational, L Poly of degree 1), return (a, L)"""
    if p.degree() != 2:
        return None
    vs = sorted(p.vars())
    idx = {v: i for i, v in enumerate(vs)}
    n = len(vs)
    M = [[Fraction(0)] * (n + 1) for _ in range(n + 1)]      # homogenised symmetric matrix, last index = constant
    for m, c in p.t.items():
        if len(m) == 0:
            M[n][n] += c
        elif len(m) == 1 and m[0][1] == 1:
            i = idx[m[0][0]]
            M[i][n] += c / 2
            M[n][i] += c / 2
        elif len(m) == 1 and m[0][1] == 2:
            i = idx[m[0][0]]
            M[i][i] += c
        elif len(m) == 2 and m[0][1] == 1 and m[1][1] == 1:
            i, j = idx[m[0][0]], idx[m[1][0]]
            M[i][j] += c / 2
            M[j][i] += c / 2
        else:
            return None
    piv = next((i for i in range(n) if M[i][i] != 0), None)
    if piv is None:
        return None
    a = M[piv][piv]
    l = [M[piv][j] / a for j in range(n + 1)]               # L = sum l_j x_j + l_n, with l_piv = 1
    for i in range(n + 1):
        for j in range(n + 1):
            if M[i][j] != a * l[i] * l[j]:
                return None
    L = {}
    for j in range(n):
        if l[j]:
            L[((vs[j], 1),)] = l[j]
    if l[n]:
        L[()] = l[n]
    return a, Poly(L)


def _deglex(m):
    return (sum(e for _, e in m), m)


def _poly_sqrt(p, pmul):
    """if p == a * Q^2 for a rational a > 0 and a polynomial Q, return (a, Q) (classical square-root algorithm under a
    degree-lexicographic term order); None otherwise"""
    if not p.t:
        return None
    lm = max(p.t, key=_deglex)
    a = p.t[lm]
    if a <= 0 or any(e % 2 for _, e in lm):
        return None
    P = p.scale(1 / a)
    q0 = tuple((v, e // 2) for v, e in lm)
    Q = Poly({q0: Fraction(1)})
    for _ in range(60):
        Rm = P.add(pmul(Q, Q).neg())
        if not Rm.t:
            return a, Q
        m = max(Rm.t, key=_deglex)
        c = Rm.t[m]
        # m must be divisible by the leading monomial q0 of Q
        d = dict(m)
        for v, e in q0:
            if d.get(v, 0) < e:
                return None
            d[v] -= e
        t = tuple(sorted((v, e) for v, e in d.items() if e > 0))
        if _deglex(t) >= _deglex(q0):
            return None
        if t in Q.t:
            return None
        Q = Q.add(Poly({t: c / 2}))
    return None


def _strip_isqrt(p):
    """if every monomial of p contains the same inverse-sqrt atom squared, return (P, radicand) with p == P / radicand"""
    e = ENG
    cand = None
    for m in p.t:
        hit = [v for v, ex in m if ex == 2 and e.vars[v]['kind'] == 'isqrt']
        if len(hit) != 1:
            return None
        if cand is None:
            cand = hit[0]
        elif cand != hit[0]:
            return None
    if cand is None:
        return None
    P = Poly({tuple(x for x in m if x[0] != cand): c for m, c in p.t.items()})
    return P, e.vars[e.vars[cand]['info']]['info']


def _squarefree_split(n):
    """n = s*s*f with f squarefree (trial division; n a positive int of moderate size)"""
    s, f = 1, 1
    d = 2
    while d * d <= n and d < 200000:
        e = 0
        while n % d == 0:
            n //= d
            e += 1
        if e:
            s *= d ** (e // 2)
            if e % 2:
                f *= d
        d += 1 if d == 2 else 2
    import math
    r = math.isqrt(n)
    if r * r == n:
        s *= r
    else:
        f *= n
    return s, f


def sym_sqrt(x, force_atom=False):
    if not isinstance(x, SymNum):
        if force_atom:
            fr = Fraction(x)
            if fr < 0:
                raise ValueError('math domain error')
            if fr == 0:
                return 0.0
            # sqrt(p/q) = sqrt(p*q)/q = s*sqrt(f)/q with f squarefree: commensurable constants share one atom
            sfac, f = _squarefree_split(fr.numerator * fr.denominator)
            coef = Fraction(sfac, fr.denominator)
            if f == 1:
                return _collapse(coef)
            return coef * SymNum(Poly.var(ENG.sqrt_atom(Poly.const(Fraction(f)))))
        return _math_sqrt(x)
    if bool(x < 0):
        raise ValueError('math domain error')
    e = ENG
    p = x.p
    st = _strip_isqrt(p)
    if st is not None:
        # p = P * ir^2 = P / rad ; the common case P == c * rad (a normalised vector normalised again) gives sqrt(c)
        P, rad = st
        if P.t and len(P.t) == len(rad.t):
            m0 = max(rad.t)
            if m0 in P.t:
                c = P.t[m0] / rad.t[m0]
                if c > 0 and not P.add(rad.scale(-c)).t:
                    return sym_sqrt(c, force_atom=True)
    sf = _square_form(p)
    if sf is None and p.degree() >= 2:
        sf = _poly_sqrt(p, lambda x, y: e.pmul(x, y))
    if sf is not None and sf[0] > 0:
        # sqrt(a * L^2) = sqrt(a) * |L| : exact, and linear in the parameters
        a, L = sf
        ra = sym_sqrt(a, force_atom=True)
        Ls = SymNum(L)
        return ra * (Ls if bool(Ls >= 0) else -Ls)
    # factor the content out so that proportional radicands share one atom: sqrt(c * rho) = sqrt(c) * sqrt(rho)
    c = _real_abs(p.lead())
    if c != 1:
        rho = p.scale(1 / c)
        return sym_sqrt(c, force_atom=True) * SymNum(Poly.var(e.sqrt_atom(rho)))
    vid = e.sqrt_atom(p)
    return SymNum(Poly.var(vid))




# ----------------------------------------------------------------------------- formula helpers
def is_sym(x):
    return isinstance(x, (SymNum, SymBool))


def And(*xs):
    xs = [x for x in xs if x is not True]
    if any(x is False for x in xs):
        return False
    if not xs:
        return True
    if all(isinstance(x, bool) for x in xs):
        return all(xs)
    if len(xs) == 1:
        return xs[0]
    return SymBool(('and', [_tr(x) for x in xs]))


def Or(*xs):
    xs = [x for x in xs if x is not False]
    if any(x is True for x in xs):
        return True
    if not xs:
        return False
    if all(isinstance(x, bool) for x in xs):
        return any(xs)
    if len(xs) == 1:
        return xs[0]
    return SymBool(('or', [_tr(x) for x in xs]))


def Not(x):
    if isinstance(x, bool):
        return not x
    if x.tree[0] == 'not':
        return SymBool(x.tree[1])
    return SymBool(('not', x.tree))


def Implies(a, b):
    return Or(Not(a), b)


def Iff(a, b):
    if isinstance(a, bool) and isinstance(b, bool):
        return a == b
    if isinstance(a, bool):
        return b if a else Not(b)
    if isinstance(b, bool):
        return a if b else Not(a)
    return SymBool(('iff', a.tree, b.tree))


def Ite(c, a, b):
    """numeric if-then-else without forking"""
    if isinstance(c, bool):
        return a if c else b
    e = ENG
    pa, pb = _poly_of(a), _poly_of(b)
    vid = e.new_var('ite', 'ite', (c.tree, pa, pb))
    z = e.vars[vid]['z']
    e.assume_z(z == z3.If(c.z, e.pz(pa), e.pz(pb)), keeps_assignment=True)
    return SymNum(Poly.var(vid))


def Abs(x):
    """|x| without forking"""
    if not isinstance(x, SymNum):
        return _real_abs(x)
    return Ite(x >= 0, x, -x)


def near(a, b, tol=Fraction(1, 10 ** 7)):
    """|a-b| <= tol as a formula (no fork)"""
    d = a - b
    if not isinstance(d, SymNum):
        return _real_abs(d) <= tol
    return And(d <= tol, d >= -tol)

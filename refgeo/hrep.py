"""Exact vertex enumeration of T = A n B for operands whose facet normals are concrete.

Every reference object is written as  {x : E x = e,  G x <= g}  with *concrete* rational rows (normals) and
right-hand sides that may be symbolic (affine in the family parameters: translations, slides).  A vertex
candidate is the solution of three independent rows; it is a closed-form affine function of the parameters
(Cramer with a concrete determinant).  T's vertex set is { candidates that satisfy every other row }, so

    result vertex set == V_T     <=>   every feasible candidate is (nearly) a result vertex, and
                                       every result vertex is (nearly) a feasible candidate

which are *linear* solver queries.  T must be bounded (one operand bounded).
"""
from fractions import Fraction as F
from itertools import combinations
from . import (vadd, vsub, vscale, dot, cross, norm2, det3, And, Or, Not, Implies, near, vnear, SymNum, is_concrete, MARGIN)

TOL = F(1, 10 ** 7)


def _perp_pair(d):
    """two independent concrete vectors orthogonal to the concrete vector d"""
    cands = [cross(d, e) for e in ((F(1), F(0), F(0)), (F(0), F(1), F(0)), (F(0), F(0), F(1)))]
    cands = [c for c in cands if any(c)]
    a = cands[0]
    b = cross(d, a)
    return a, b


def hrep(S):
    """(eqs, ineqs): lists of (n, c) meaning n.x = c / n.x <= c, n concrete"""
    k = S.kind
    if k == 'Point':
        I = ((F(1), F(0), F(0)), (F(0), F(1), F(0)), (F(0), F(0), F(1)))
        return [(I[i], S.p[i]) for i in range(3)], []
    if k in ('Line', 'HalfLine', 'Segment'):
        d = S.d
        assert is_concrete(d), 'hrep needs a concrete direction'
        a, b = _perp_pair(d)
        eqs = [(a, dot(a, S.p)), (b, dot(b, S.p))]
        ine = []
        if k != 'Line':
            ine.append((vscale(-1, d), -dot(d, S.p)))
        if k == 'Segment':
            ine.append((d, dot(d, S.b)))
        return eqs, ine
    if k == 'Plane':
        assert is_concrete(S.n)
        return [(S.n, dot(S.n, S.p))], []
    if k == 'ConvexPolygon':
        n = S.n
        assert is_concrete(n)
        eqs = [(n, dot(n, S.p))]
        ine = []
        vs = S.v
        # orientation of the cycle about n (concrete shape => decide on the concrete edge vectors)
        e0 = vsub(vs[1], vs[0])
        e1 = vsub(vs[2], vs[1])
        sgn = dot(cross(e0, e1), n)
        assert not isinstance(sgn, SymNum) and sgn != 0
        for i in range(len(vs)):
            a, b = vs[i], vs[(i + 1) % len(vs)]
            e = vsub(b, a)
            assert is_concrete(e)
            m = cross(e, n) if sgn > 0 else cross(n, e)      # outward in-plane normal
            ine.append((m, dot(m, a)))
        return eqs, ine
    if k == 'ConvexPolyhedron':
        return [], [(n, dot(n, p0)) for n, p0 in S.oriented]
    raise TypeError(k)


def _solve3(rows):
    (n1, c1), (n2, c2), (n3, c3) = rows
    D = det3(n1, n2, n3)
    if D == 0:
        return None
    # x = (c1 (n2 x n3) + c2 (n3 x n1) + c3 (n1 x n2)) / D
    a, b, c = cross(n2, n3), cross(n3, n1), cross(n1, n2)
    return tuple((c1 * a[i] + c2 * b[i] + c3 * c[i]) / D for i in range(3))


def _rank(rows):
    ns = [r[0] for r in rows]
    if not ns:
        return 0
    if len(ns) >= 3:
        for t in combinations(ns, 3):
            if det3(*t) != 0:
                return 3
    if len(ns) >= 2:
        for a, b in combinations(ns, 2):
            if any(cross(a, b)):
                return 2
    return 1 if any(any(n) for n in ns) else 0


class VertexOracle:
    """vertex candidates of T = A n B with feasibility formulas"""

    def __init__(self, A, B):
        ea, ia = hrep(A)
        eb, ib = hrep(B)
        self.eqs = ea + eb
        self.ineqs = ia + ib
        self.cands = []          # (x, feasible formula, slacks)
        self._build()

    def _build(self):
        eqs, ineqs = self.eqs, self.ineqs
        # an independent subset of the equalities
        base = []
        for r in eqs:
            if _rank(base + [r]) > len(base):
                base.append(r)
        self.dependent_eqs = [r for r in eqs if r not in base]
        need = 3 - len(base)
        seen = {}
        for extra in combinations(range(len(ineqs)), need):
            rows = base + [ineqs[i] for i in extra]
            x = _solve3(rows)
            if x is None:
                continue
            conds, slacks = [], []
            for r in self.dependent_eqs:
                q = dot(r[0], x) - r[1]
                conds.append(near(q, 0, TOL * (1 + norm2(r[0]))))
                slacks.append((q, norm2(r[0])))
            for j, (n, c) in enumerate(ineqs):
                if j in extra:
                    continue
                q = dot(n, x) - c
                conds.append(q <= 0)
                slacks.append((q, norm2(n)))
            self.cands.append((x, And(*conds), slacks))
        if need == 0:
            pass

    def band(self, ctx):
        """admissibility: every candidate vertex is exactly on, or at least 1e-3 (relative) off, every other facet"""
        for x, feas, slacks in self.cands:
            for q, nn in slacks:
                if isinstance(q, SymNum):
                    ctx.assume(Or(q == 0, q * q >= MARGIN * MARGIN * nn))
                elif q != 0 and q * q < MARGIN * MARGIN * nn:
                    ctx.assume(False)

    def empty(self):
        return And(*[Not(f) for _, f, _ in self.cands])

    def check(self, ctx, result, sig):
        from .denote import as_ref, generators
        if result is None:
            ctx.require(self.empty(), sig + ': returns None although the operands have a common point')
            return
        Rr = as_ref(result)
        if Rr.kind in ('Line', 'HalfLine', 'Plane'):
            ctx.fail(sig + ': unbounded %s result for a bounded intersection' % Rr.kind)
        verts, _ = generators(Rr)
        # (a) nothing missed: every true vertex is a result vertex
        ctx.require(And(*[Implies(f, Or(*[vnear(x, v, TOL) for v in verts])) for x, f, _ in self.cands]),
                    sig + ': %s result misses a vertex of the true intersection' % Rr.kind)
        # (b) nothing invented: every result vertex is a true vertex
        for v in verts:
            ctx.require(Or(*[And(f, vnear(x, v, TOL)) for x, f, _ in self.cands]),
                        sig + ': %s result has a vertex that is not a vertex of the true intersection' % Rr.kind)
        # (c) the result's vertices are pairwise distinct (so its type is the dimension class of the true set)
        for a, b in combinations(verts, 2):
            ctx.require(Not(vnear(a, b, F(1, 10 ** 5))), sig + ': %s result has coincident vertices' % Rr.kind)

"""refgeo -- a small exact reference geometry kernel, written independently of Geometry3D.

It is *formula style*: every predicate returns a truth value built with symgeo.core.And/Or/Not
(a Python bool on Fractions in concrete/replay mode, a solver formula on symbolic numbers) and never
forks the path.  Vectors are plain 3-tuples of numbers (Fraction | float | SymNum).
"""
from fractions import Fraction
from symgeo.core import And, Or, Not, Implies, Iff, Ite, near, SymNum

F = Fraction
MARGIN = F(1, 1000)
TOL = F(1, 10 ** 7)


# ----------------------------------------------------------------------------- vectors
def vadd(a, b):
    return (a[0] + b[0], a[1] + b[1], a[2] + b[2])


def vsub(a, b):
    return (a[0] - b[0], a[1] - b[1], a[2] - b[2])


def vscale(k, a):
    return (k * a[0], k * a[1], k * a[2])


def dot(a, b):
    return a[0] * b[0] + a[1] * b[1] + a[2] * b[2]


def cross(a, b):
    return (a[1] * b[2] - a[2] * b[1], a[2] * b[0] - a[0] * b[2], a[0] * b[1] - a[1] * b[0])


def norm2(a):
    return dot(a, a)


def det3(a, b, c):
    return dot(a, cross(b, c))


def vzero(a):
    return And(a[0] == 0, a[1] == 0, a[2] == 0)


def veq(a, b):
    return And(a[0] == b[0], a[1] == b[1], a[2] == b[2])


def vnear(a, b, tol=TOL):
    return And(near(a[0], b[0], tol), near(a[1], b[1], tol), near(a[2], b[2], tol))


def affine(p, *terms):
    """p + sum k_i * v_i"""
    r = tuple(p)
    for k, v in terms:
        r = vadd(r, vscale(k, v))
    return r


def fr(v):
    return tuple(F(x) for x in v)


def is_concrete(v):
    return not any(isinstance(x, SymNum) for x in v)


# ----------------------------------------------------------------------------- reference objects
class RPoint:
    kind = 'Point'

    def __init__(self, p):
        self.p = tuple(p)


class RLine:
    kind = 'Line'

    def __init__(self, p, d):
        self.p, self.d = tuple(p), tuple(d)


class RHalfLine:
    kind = 'HalfLine'

    def __init__(self, p, d):
        self.p, self.d = tuple(p), tuple(d)


class RSegment:
    kind = 'Segment'

    def __init__(self, a, b):
        self.a, self.b = tuple(a), tuple(b)
        self.p, self.d = self.a, vsub(self.b, self.a)


class RPlane:
    kind = 'Plane'

    def __init__(self, p, n):
        self.p, self.n = tuple(p), tuple(n)


class RPolygon:
    """convex polygon: vertices as a cycle (either orientation); n = any normal of its plane"""
    kind = 'ConvexPolygon'

    def __init__(self, verts):
        self.v = [tuple(x) for x in verts]
        self.n = cross(vsub(self.v[1], self.v[0]), vsub(self.v[2], self.v[0]))
        self.p = self.v[0]

    def edges(self):
        k = len(self.v)
        return [(self.v[i], self.v[(i + 1) % k]) for i in range(k)]


class RPolyhedron:
    """convex polyhedron given by its vertices (concrete hull computed exactly) or by explicit faces:
    faces = list of vertex cycles; half-spaces n.x <= c derived with outward normals"""
    kind = 'ConvexPolyhedron'

    def __init__(self, verts, faces):
        self.v = [tuple(x) for x in verts]
        self.faces = [[tuple(x) for x in f] for f in faces]
        c = tuple(sum(x[i] for x in self.v) / len(self.v) for i in range(3)) if is_concrete(sum(self.v, ())) else None
        self.hs = []
        for f in self.faces:
            n = cross(vsub(f[1], f[0]), vsub(f[2], f[0]))
            self.hs.append((n, f[0]))
        self._centre = c

    def halfspaces(self, centre):
        """[(n, p0)] with n oriented away from `centre` (a concrete interior point of the *shape*; the
        orientation of a rigidly translated body does not depend on the translation)"""
        out = []
        for n, p0 in self.hs:
            out.append((n, p0))
        return out


# ----------------------------------------------------------------------------- membership formulas
def on_line(x, p, d):
    return vzero(cross(vsub(x, p), d))


def contains(S, x):
    """exact truth of  x in S  as a formula"""
    k = S.kind
    if k == 'Point':
        return veq(S.p, x)
    if k == 'Line':
        return on_line(x, S.p, S.d)
    if k == 'HalfLine':
        return And(on_line(x, S.p, S.d), dot(vsub(x, S.p), S.d) >= 0)
    if k == 'Segment':
        w = vsub(x, S.a)
        s = dot(w, S.d)
        return And(on_line(x, S.a, S.d), s >= 0, s <= norm2(S.d))
    if k == 'Plane':
        return dot(S.n, vsub(x, S.p)) == 0
    if k == 'ConvexPolygon':
        cs = [dot(S.n, vsub(x, S.p)) == 0]
        for a, b in S.edges():
            cs.append(dot(cross(vsub(b, a), vsub(x, a)), S.n) >= 0)
        return And(*cs)
    if k == 'ConvexPolyhedron':
        return And(*[dot(n, vsub(x, p0)) <= 0 for n, p0 in S.oriented])
    raise TypeError(k)


def _fsqrt(q):
    """rational over-approximation of sqrt of a concrete non-negative rational (for scales only)"""
    import math
    return F(math.sqrt(float(q))).limit_denominator(10 ** 6) if q else F(0)


def band_point(ctx, S, x):
    """admissibility of the incidences between point x and S: each is exact or off by > 1e-3 (relative)"""
    k = S.kind
    if k == 'Point':
        d2 = norm2(vsub(S.p, x))
        ctx.assume(Or(d2 == 0, d2 >= MARGIN * MARGIN))
        return
    if k in ('Line', 'HalfLine', 'Segment'):
        w = vsub(x, S.p)
        c2 = norm2(cross(w, S.d))
        dd = norm2(S.d)
        ww = norm2(w)
        # distance to the carrier: 0, or > 1e-3 relative to |x-p| (and absolutely, for points near p)
        ctx.assume(Or(c2 == 0, And(c2 >= MARGIN * MARGIN * dd * ww, c2 >= MARGIN * MARGIN * dd)))
        if k != 'Line':
            s = dot(w, S.d)
            ctx.assume(Or(s == 0, s >= MARGIN * dd, s <= -MARGIN * dd))
            if k == 'Segment':
                s1 = s - dd
                ctx.assume(Or(s1 == 0, s1 >= MARGIN * dd, s1 <= -MARGIN * dd))
        # coincidence with the anchor point
        ctx.assume(Or(ww == 0, ww >= MARGIN * MARGIN))
        return
    if k == 'Plane':
        q = dot(S.n, vsub(x, S.p))
        nn = norm2(S.n)
        ctx.assume(Or(q == 0, q * q >= MARGIN * MARGIN * nn))
        return
    if k == 'ConvexPolygon':
        q = dot(S.n, vsub(x, S.p))
        nn = norm2(S.n)
        ctx.assume(Or(q == 0, q * q >= MARGIN * MARGIN * nn))
        for a, b in S.edges():
            e = vsub(b, a)
            g = dot(cross(e, vsub(x, a)), S.n)
            ctx.assume(Or(g == 0, g * g >= MARGIN * MARGIN * nn * norm2(e)))
        return
    if k == 'ConvexPolyhedron':
        for n, p0 in S.oriented:
            q = dot(n, vsub(x, p0))
            ctx.assume(Or(q == 0, q * q >= MARGIN * MARGIN * norm2(n)))
        return
    raise TypeError(k)


# ----------------------------------------------------------------------------- admissibility of a pair
def _band0(ctx, q, scale2):
    """q == 0 or q^2 >= MARGIN^2 * scale2"""
    ctx.assume(Or(q == 0, q * q >= MARGIN * MARGIN * scale2))


def anchors(S):
    k = S.kind
    if k == 'Point':
        return [S.p]
    if k == 'Line':
        return [S.p]
    if k == 'HalfLine':
        return [S.p]
    if k == 'Segment':
        return [S.a, S.b]
    if k == 'Plane':
        return [S.p]
    return list(S.v)


def band_pair(ctx, A, B):
    """every incidence between A and B is exact or violated by a relative margin of 1e-3"""
    one = ('Line', 'HalfLine', 'Segment')
    for S, T in ((A, B), (B, A)):
        for x in anchors(T):
            band_point(ctx, S, x)
    ka, kb = A.kind, B.kind
    if ka in one and kb in one:
        w = vsub(B.p, A.p)
        c = cross(A.d, B.d)
        cc = norm2(c)
        da, db = norm2(A.d), norm2(B.d)
        ctx.assume(Or(cc == 0, cc >= MARGIN * MARGIN * da * db))
        vol = dot(w, c)
        ctx.assume(Or(vol == 0, vol * vol >= MARGIN * MARGIN * cc))
        na = dot(cross(w, B.d), c)      # sA = na/cc : parameter on A of the crossing point
        nb = dot(cross(w, A.d), c)      # sB = nb/cc
        for S, nS in ((A, na), (B, nb)):
            if S.kind != 'Line':
                _band0(ctx, nS, cc * cc)
                if S.kind == 'Segment':
                    _band0(ctx, nS - cc, cc * cc)
    elif (ka in one and kb == 'Plane') or (ka == 'Plane' and kb in one):
        L, P = (A, B) if ka in one else (B, A)
        q = dot(P.n, L.d)
        _band0(ctx, q, norm2(P.n) * norm2(L.d))
        if L.kind != 'Line':
            num = dot(P.n, vsub(P.p, L.p))
            _band0(ctx, num, q * q)
            if L.kind == 'Segment':
                _band0(ctx, num - q, q * q)
    elif ka == 'Plane' and kb == 'Plane':
        c = cross(A.n, B.n)
        cc = norm2(c)
        ctx.assume(Or(cc == 0, cc >= MARGIN * MARGIN * norm2(A.n) * norm2(B.n)))


def band_flat_body(ctx, f, K, Kbody):
    """admissibility of a flat f against a convex body K (reference object) whose concrete description is Kbody
    (bodies.Body or bodies.Poly2, used only for its combinatorics: edges as vertex index pairs)"""
    # anchors of f against K, vertices of K against f
    for x in anchors(f):
        band_point(ctx, K, x)
    if f.kind != 'Point':
        for v in K.v:
            band_point(ctx, f, v)
    if f.kind == 'Point':
        return
    # f against every edge (as a segment) and against the carrier planes of K
    if K.kind == 'ConvexPolygon':
        edges = K.edges()
        planes = [RPlane(K.p, K.n)]
    else:
        idx = {v: i for i, v in enumerate(Kbody.verts)}
        edges = [(K.v[idx[a]], K.v[idx[b]]) for a, b in Kbody.edges]
        planes = [RPlane(p0, n) for n, p0 in K.oriented]
    for a, b in edges:
        band_pair(ctx, f, RSegment(a, b))
    for P in planes:
        if f.kind == 'Plane':
            c = cross(f.n, P.n)
            cc = norm2(c)
            ctx.assume(Or(cc == 0, cc >= MARGIN * MARGIN * norm2(f.n) * norm2(P.n)))
            band_point(ctx, P, f.p)
        else:
            q = dot(P.n, f.d)
            _band0(ctx, q, norm2(P.n) * norm2(f.d))
            band_point(ctx, P, f.p)

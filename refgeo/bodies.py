"""Exact (Fraction) convex hulls of concrete lattice point sets and the frame / body catalogue."""
from fractions import Fraction as F
from itertools import combinations, permutations, product
import random
from . import vadd, vsub, vscale, dot, cross, norm2, RPolygon, RPolyhedron, fr


def _unit_key(n, c):
    """canonical key of the oriented plane n.x = c (concrete rationals): scale so that the first non-zero
    component of n has absolute value 1"""
    k = next(abs(x) for x in n if x != 0)
    return tuple(x / k for x in n) + (c / k,)


def order_cycle(pts, n):
    """order coplanar concrete points (convex position) counter-clockwise about normal n"""
    c = tuple(sum(p[i] for p in pts) / len(pts) for i in range(3))
    p0 = pts[0]
    u = vsub(p0, c)

    def key(p):
        w = vsub(p, c)
        cr = dot(cross(u, w), n)      # >0: counter-clockwise from u
        dt = dot(u, w)
        # half-plane index then exact comparison via sort with cmp
        return (cr, dt)
    import functools

    def half(p):
        cr, dt = key(p)
        if cr == 0 and dt > 0:
            return 0
        if cr > 0:
            return 1
        if cr == 0 and dt < 0:
            return 2
        return 3

    def cmp(a, b):
        ha, hb = half(a), half(b)
        if ha != hb:
            return -1 if ha < hb else 1
        wa, wb = vsub(a, c), vsub(b, c)
        cr = dot(cross(wa, wb), n)
        return -1 if cr > 0 else (1 if cr < 0 else 0)
    return sorted(pts, key=functools.cmp_to_key(cmp))


def hull2d(pts):
    """extreme points of a coplanar concrete point set, as a ccw cycle about the returned normal"""
    pts = [fr(p) for p in dict.fromkeys(map(tuple, map(fr, pts)))]
    n = None
    for a, b, c in combinations(pts, 3):
        m = cross(vsub(b, a), vsub(c, a))
        if any(m):
            n = m
            break
    if n is None:
        raise ValueError('collinear')
    ext = []
    for p in pts:
        # p is extreme iff it is not in the hull of the others: check via edge supporting lines
        is_ext = False
        for q in pts:
            if q == p:
                continue
            e = vsub(q, p)
            side = [dot(cross(e, vsub(r, p)), n) for r in pts if r != p and r != q]
            if all(s > 0 for s in side) or all(s < 0 for s in side):
                is_ext = True
                break
            if all(s >= 0 for s in side) or all(s <= 0 for s in side):
                # collinear points on this supporting line: p extreme only if it is an end of them
                col = [r for r in pts if r != p and dot(cross(e, vsub(r, p)), n) == 0]
                if all(dot(vsub(r, p), e) > 0 for r in col):
                    is_ext = True
                    break
        if is_ext:
            ext.append(p)
    return order_cycle(ext, n), n


class Body:
    """concrete convex polyhedron: verts (Fractions), faces (ccw cycles seen from outside), outward normals"""

    def __init__(self, pts, name=''):
        pts = [fr(p) for p in dict.fromkeys(map(tuple, map(fr, pts)))]
        self.name = name
        planes = {}
        for a, b, c in combinations(pts, 3):
            n = cross(vsub(b, a), vsub(c, a))
            if not any(n):
                continue
            s = [dot(n, vsub(p, a)) for p in pts]
            if all(x <= 0 for x in s):
                pass
            elif all(x >= 0 for x in s):
                n = vscale(-1, n)
            else:
                continue
            key = _unit_key(n, dot(n, a))
            if key not in planes:
                on = [p for p in pts if dot(n, vsub(p, a)) == 0]
                planes[key] = (n, on)
        self.faces = []
        self.normals = []
        used = set()
        for key, (n, on) in sorted(planes.items()):
            cyc, _ = hull2d(on)
            cyc = order_cycle(cyc, n)
            self.faces.append(cyc)
            self.normals.append(n)
            used.update(cyc)
        self.verts = [p for p in pts if p in used]
        if len(self.faces) < 4:
            raise ValueError('degenerate body')
        self.centre = tuple(sum(p[i] for p in self.verts) / len(self.verts) for i in range(3))
        es = set()
        for f in self.faces:
            for i in range(len(f)):
                es.add(frozenset((f[i], f[(i + 1) % len(f)])))
        self.edges = [tuple(sorted(e)) for e in es]
        assert len(self.verts) - len(self.edges) + len(self.faces) == 2, 'Euler'

    def mapped(self, fn, name=None):
        return Body([fn(p) for p in self.verts], name or self.name)

    def volume(self):
        v = F(0)
        for f, n in zip(self.faces, self.normals):
            for i in range(1, len(f) - 1):
                v += dot(vsub(f[0], self.centre), cross(vsub(f[i], self.centre), vsub(f[i + 1], self.centre)))
        return abs(v) / 6

    def area2_faces(self):
        """list of (squared-twice-area vector) per face: |sum cross|; exact area needs a sqrt"""
        out = []
        for f in self.faces:
            s = (F(0), F(0), F(0))
            for i in range(1, len(f) - 1):
                s = vadd(s, cross(vsub(f[i], f[0]), vsub(f[i + 1], f[0])))
            out.append(s)
        return out


class Poly2:
    """concrete convex polygon (ccw about n)"""

    def __init__(self, pts, name=''):
        self.verts, self.n = hull2d(pts)
        self.name = name
        self.centre = tuple(sum(p[i] for p in self.verts) / len(self.verts) for i in range(3))


# ----------------------------------------------------------------------------- catalogue
def _lin(M, p):
    return tuple(sum(M[i][j] * p[j] for j in range(3)) for i in range(3))


# orthogonal-ish lattice frames: rows are the images of e1,e2,e3 (columns would do as well)
FRAMES = {
    'axis': ((1, 0, 0), (0, 1, 0), (0, 0, 1)),
    'planar': ((1, 2, 0), (-2, 1, 0), (0, 0, 1)),
    'oblique': ((1, 1, 0), (-1, 1, 1), (1, -1, 2)),
    'pyth3': ((1, 2, 2), (2, 1, -2), (2, -2, 1)),
    'pyth7': ((2, 3, 6), (3, -6, 2), (6, 2, -3)),
    'shear': ((1, 0, 0), (1, 1, 0), (1, 1, 1)),
    'yz45': ((1, 0, 0), (0, 1, 1), (0, -1, 1)),      # third axis (0,-1,1): planes with a zero x and opposite-sign y, z normal
}


def random_frame_name(rng):
    """'rnd:a,b,c;d,e,f;g,h,i' -- three independent lattice vectors with components in -2..2 (seeded)"""
    while True:
        M = [[rng.randint(-2, 2) for _ in range(3)] for _ in range(3)]
        det = (M[0][0] * (M[1][1] * M[2][2] - M[1][2] * M[2][1]) - M[0][1] * (M[1][0] * M[2][2] - M[1][2] * M[2][0])
               + M[0][2] * (M[1][0] * M[2][1] - M[1][1] * M[2][0]))
        if det != 0 and all(any(r) for r in M):
            return 'rnd:' + ';'.join(','.join(map(str, r)) for r in M)


def _frame_matrix(name):
    if name.startswith('rnd:'):
        return tuple(tuple(int(x) for x in r.split(',')) for r in name[4:].split(';'))
    return FRAMES[name]


def frame_map(name, scale=F(1), origin=(0, 0, 0)):
    M = _frame_matrix(name)

    def f(p):
        q = (sum(M[j][i] * p[j] for j in range(3)) for i in range(3))
        return tuple(F(origin[i]) + scale * x for i, x in enumerate(q))
    return f


SIGNED_PERMS = []
for perm in permutations(range(3)):
    for sg in product((1, -1), repeat=3):
        SIGNED_PERMS.append((perm, sg))


def signed_perm_map(k):
    perm, sg = SIGNED_PERMS[k]
    return lambda p: tuple(sg[i] * p[perm[i]] for i in range(3))


UNIT_SHAPES = {
    'tetra': [(0, 0, 0), (2, 0, 0), (0, 2, 0), (0, 0, 2)],
    'cube': [(x, y, z) for x in (0, 2) for y in (0, 2) for z in (0, 2)],
    'prism': [(0, 0, 0), (2, 0, 0), (0, 2, 0), (0, 0, 1), (2, 0, 1), (0, 2, 1)],
    'pyramid': [(0, 0, 0), (2, 0, 0), (2, 2, 0), (0, 2, 0), (1, 1, 2)],
    'octa': [(1, 0, 0), (-1, 0, 0), (0, 1, 0), (0, -1, 0), (0, 0, 1), (0, 0, -1)],
    'wedge7': [(0, 0, 0), (2, 0, 0), (2, 2, 0), (0, 2, 0), (0, 0, 2), (2, 0, 2), (0, 2, 1)],
}

UNIT_POLYS = {
    'tri': [(0, 0, 0), (2, 0, 0), (0, 2, 0)],
    'square': [(0, 0, 0), (2, 0, 0), (2, 2, 0), (0, 2, 0)],
    'quad': [(0, 0, 0), (3, 0, 0), (2, 2, 0), (0, 1, 0)],
    'penta': [(0, 0, 0), (2, 0, 0), (3, 1, 0), (1, 3, 0), (-1, 1, 0)],
    'hexa': [(1, 0, 0), (2, 0, 0), (3, 1, 0), (2, 2, 0), (1, 2, 0), (0, 1, 0)],
    'wide': [(-2, F(-1, 2), 0), (2, F(-1, 2), 0), (2, F(1, 2), 0), (-2, F(1, 2), 0)],
    'tall': [(F(-1, 2), -2, 0), (F(1, 2), -2, 0), (F(1, 2), 2, 0), (F(-1, 2), 2, 0)],
    # coordinates -1 and -2 together: CPython hashes -1 and -2 alike, so two of these vertices have colliding Point hashes
    'para12': [(0, 0, 0), (-1, -2, 0), (-3, -3, 0), (-2, -1, 0)],
}

# scales keep coordinates on the quarter lattice and within |x| <= ~8
FRAME_SCALE = {'axis': F(1), 'planar': F(1, 2), 'oblique': F(1, 2), 'pyth3': F(1, 4), 'pyth7': F(1, 4), 'shear': F(1, 2), 'yz45': F(1, 2)}


class _Scale(dict):
    def __missing__(self, k):
        return F(1, 2)          # seeded random frames


FRAME_SCALE = _Scale(FRAME_SCALE)


# catalogue shapes are placed away from the origin by default: a plane through the origin has offset d = 0, which hides
# every sign / orientation error in offset comparisons (round-4 seeds C02, C05)
DEFAULT_ORIGIN = (F(3, 4), F(-1, 2), F(5, 4))


def body(shape, frame='axis', origin=None, perm=None, scale=None):
    origin = DEFAULT_ORIGIN if origin is None else origin
    f = frame_map(frame, FRAME_SCALE[frame] * (F(scale) if scale is not None else 1), origin)
    pts = [f(p) for p in UNIT_SHAPES[shape]]
    if perm is not None:
        g = signed_perm_map(perm)
        pts = [g(p) for p in pts]
    return Body(pts, '%s@%s%s' % (shape, frame, '' if perm is None else '#%d' % perm))


def polygon(shape, frame='axis', origin=None, perm=None, scale=None):
    if origin is None:
        origin = (0, 0, 0) if shape == 'para12' else DEFAULT_ORIGIN      # para12 needs the coordinates -1 / -2 themselves
    f = frame_map(frame, FRAME_SCALE[frame] * (F(scale) if scale is not None else 1), origin)
    pts = [f(p) for p in UNIT_POLYS[shape]]
    if perm is not None:
        g = signed_perm_map(perm)
        pts = [g(p) for p in pts]
    return Poly2(pts, '%s@%s%s' % (shape, frame, '' if perm is None else '#%d' % perm))


def frame_vectors(frame, perm=None):
    """three independent lattice vectors (images of the unit vectors, scaled)"""
    f = frame_map(frame, FRAME_SCALE[frame])
    vs = [f((1, 0, 0)), f((0, 1, 0)), f((0, 0, 1))]
    if perm is not None:
        g = signed_perm_map(perm)
        vs = [g(v) for v in vs]
    return vs


def rpoly(P, off=None):
    """reference polygon object of a concrete Poly2, optionally translated by a (symbolic) vector"""
    vs = P.verts if off is None else [vadd(v, off) for v in P.verts]
    r = RPolygon(vs)
    r.n = P.n
    return r


def rbody(B, off=None):
    vs = B.verts if off is None else [vadd(v, off) for v in B.verts]
    faces = B.faces if off is None else [[vadd(v, off) for v in f] for f in B.faces]
    r = RPolyhedron(vs, faces)
    r.oriented = [(n, f[0]) for n, f in zip(B.normals, faces)]
    return r

"""Denotational comparison of a library result with the exact intersection A n B.

   R == A n B   <=>   (1) R is inside A and B       : generators of R are (nearly) in both, directions recede in both
                      (2) nothing of A n B is missed: no point y of A n B lies far from R

(2) is a universally quantified statement about a probe point y; y is simply one more symbolic parameter
of the family (so a counterexample comes with a concrete y and is replayable).  No case analysis of the
relative position is written here: the membership formulas do all the work and the solver finds the cases.
"""
from fractions import Fraction as F
from . import (vadd, vsub, vscale, dot, cross, norm2, And, Or, Not, RPoint, RLine, RHalfLine, RSegment, RPlane, RPolygon,
               RPolyhedron, contains, SymNum)

NEAR = F(1, 10 ** 7)
FAR = F(1, 10 ** 5)


def near_contains(S, x, tol=NEAR):
    k = S.kind
    t2 = tol * tol
    if k == 'Point':
        return norm2(vsub(S.p, x)) <= t2
    if k in ('Line', 'HalfLine', 'Segment'):
        w = vsub(x, S.p)
        dd = norm2(S.d)
        c = [norm2(cross(w, S.d)) <= t2 * dd]
        if k != 'Line':
            s = dot(w, S.d)
            c.append(s >= -tol * (1 + dd))
            if k == 'Segment':
                c.append(s <= dd + tol * (1 + dd))
        return And(*c)
    if k == 'Plane':
        q = dot(S.n, vsub(x, S.p))
        return q * q <= t2 * norm2(S.n)
    if k == 'ConvexPolygon':
        nn = norm2(S.n)
        q = dot(S.n, vsub(x, S.p))
        c = [q * q <= t2 * nn]
        for a, b in S.edges():
            e = vsub(b, a)
            c.append(dot(cross(e, vsub(x, a)), S.n) >= -tol * (1 + nn + norm2(e)))
        return And(*c)
    if k == 'ConvexPolyhedron':
        return And(*[dot(n, vsub(x, p0)) <= tol * (1 + norm2(n)) for n, p0 in S.oriented])
    raise TypeError(k)


def recedes(S, v, tol=NEAR):
    """the ray x + s v (s >= 0) stays in S for every x in S"""
    k = S.kind
    vv = norm2(v)
    if k == 'Line':
        return norm2(cross(v, S.d)) <= tol * tol * vv * norm2(S.d)
    if k == 'HalfLine':
        return And(norm2(cross(v, S.d)) <= tol * tol * vv * norm2(S.d), dot(v, S.d) > 0)
    if k == 'Plane':
        q = dot(S.n, v)
        return q * q <= tol * tol * vv * norm2(S.n)
    return False


def probe(ctx, S, prefix='y'):
    """a symbolic point of S: (y, constraint that y lies in S).  Uses as few fresh parameters as S's dimension"""
    k = S.kind
    if k == 'Point':
        return S.p, True
    if k in ('Line', 'HalfLine', 'Segment'):
        s = ctx.param(prefix + 's', -40, 40)
        y = vadd(S.p, vscale(s, S.d))
        c = True
        if k == 'HalfLine':
            c = s >= 0
        if k == 'Segment':
            c = And(s >= 0, s <= 1)
        return y, c
    if k == 'Plane':
        # two independent in-plane directions from the (possibly symbolic) normal: use all three coordinate
        # crosses and let the free 3-vector be constrained to the plane instead (robust for symbolic normals)
        y = tuple(ctx.param(prefix + str(i), -40, 40) for i in range(3))
        return y, dot(S.n, vsub(y, S.p)) == 0
    if k == 'ConvexPolygon':
        s = ctx.param(prefix + 's', -2, 2)
        r = ctx.param(prefix + 'r', -2, 2)
        v0, v1, v2 = S.v[0], S.v[1], S.v[-1]
        y = vadd(v0, vadd(vscale(s, vsub(v1, v0)), vscale(r, vsub(v2, v0))))
        return y, contains(S, y)
    if k == 'ConvexPolyhedron':
        y = tuple(ctx.param(prefix + str(i), -40, 40) for i in range(3))
        return y, contains(S, y)
    raise TypeError(k)


def declare_probe(ctx, A, B):
    """call before the library runs (parameters must exist from the start of the path): a probe point ranging
    over the lower-dimensional / cheaper operand"""
    order = {'Point': 0, 'Segment': 1, 'HalfLine': 1, 'Line': 1, 'ConvexPolygon': 2, 'Plane': 3, 'ConvexPolyhedron': 4}
    S, T = (A, B) if order[A.kind] <= order[B.kind] else (B, A)
    y, c = probe(ctx, S)
    return y, And(c, contains(T, y))


def as_ref(lib_obj):
    """reference view of a library result, read only through its public attributes"""
    import Geometry3D as G
    o = lib_obj

    def X(t):
        # concrete (float) results enter the oracle as the exact rationals they are: the oracle's own arithmetic must not round
        # (a far-away result vertex would otherwise pass a membership test by cancellation)
        return tuple(F(c) if isinstance(c, float) else c for c in t)
    if isinstance(o, G.Point):
        return RPoint(X((o.x, o.y, o.z)))
    if isinstance(o, G.Segment):
        a, b = o.start_point, o.end_point
        return RSegment(X((a.x, a.y, a.z)), X((b.x, b.y, b.z)))
    if isinstance(o, G.HalfLine):
        p, v = o.point, o.vector
        return RHalfLine(X((p.x, p.y, p.z)), X((v[0], v[1], v[2])))
    if isinstance(o, G.Line):
        return RLine(X((o.sv[0], o.sv[1], o.sv[2])), X((o.dv[0], o.dv[1], o.dv[2])))
    if isinstance(o, G.Plane):
        pv, n = o.point_normal()
        return RPlane(X((pv[0], pv[1], pv[2])), X((n[0], n[1], n[2])))
    if isinstance(o, G.ConvexPolygon):
        r = RPolygon([X((p.x, p.y, p.z)) for p in o.points])
        n = o.plane.n
        r.n = X((n[0], n[1], n[2]))           # the library's own normal: its vertex cycle is claimed ccw about it
        return r
    if isinstance(o, G.ConvexPolyhedron):
        verts = [X((p.x, p.y, p.z)) for p in o.point_set]
        faces = [[X((p.x, p.y, p.z)) for p in f.points] for f in o.convex_polygons]
        r = RPolyhedron(verts, faces)
        r.oriented = []
        for f in o.convex_polygons:
            n = f.plane.n
            p0 = f.points[0]
            r.oriented.append((X((n[0], n[1], n[2])), X((p0.x, p0.y, p0.z))))
        return r
    raise TypeError(type(o))


def generators(Rr):
    k = Rr.kind
    if k == 'Point':
        return [Rr.p], []
    if k == 'Segment':
        return [Rr.a, Rr.b], []
    if k == 'HalfLine':
        return [Rr.p], [Rr.d]
    if k == 'Line':
        return [Rr.p], [Rr.d, vscale(-1, Rr.d)]
    if k == 'ConvexPolygon':
        return list(Rr.v), []
    if k == 'ConvexPolyhedron':
        return list(Rr.v), []
    if k == 'Plane':
        return [Rr.p], None
    raise TypeError(k)


def check_result(ctx, A, B, result, y, y_in_both, sig, nondegenerate=True):
    """assert  result == A n B  on the current path.  y / y_in_both come from declare_probe()."""
    if result is None:
        ctx.require(Not(y_in_both), sig + ': returns None although the operands have a common point')
        return
    Rr = as_ref(result)
    gens, dirs = generators(Rr)
    for g in gens:
        ctx.require(And(near_contains(A, g), near_contains(B, g)),
                    sig + ': %s result has a vertex/anchor outside an operand' % Rr.kind)
    if dirs is None:       # Plane result: both operands must be planes with the same normal direction
        ctx.require(And(A.kind == 'Plane', B.kind == 'Plane'), sig + ': Plane result for non-plane operands')
        for S in (A, B):
            c = cross(Rr.n, S.n)
            ctx.require(norm2(c) <= NEAR * NEAR * norm2(Rr.n) * norm2(S.n), sig + ': Plane result not parallel to an operand')
    else:
        for v in dirs:
            ctx.require(norm2(v) >= F(1, 10 ** 12), sig + ': unbounded result with zero direction')
            ctx.require(And(recedes(A, v), recedes(B, v)), sig + ': unbounded %s result leaves an operand' % Rr.kind)
    if Rr.kind == 'Segment' and nondegenerate:
        ctx.require(norm2(Rr.d) >= FAR * FAR, sig + ': degenerate Segment result')
    ctx.require(Not(And(y_in_both, Not(near_contains(Rr, y, FAR)))),
                sig + ': %s result misses part of the true intersection' % Rr.kind)
